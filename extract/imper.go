package main

// Imperative translator: Go struct types and their (pointer-receiver) methods → Lean structures
// and state-passing functions in the `Option` monad (`none` = the call panics: an explicit
// panic, an index out of range, a `make` with len > cap).
//
//   func (p *T) m(a A) R   ↦   def T.m (p : T) (a : A) : Option (T × R)
//   func (p *T) m(a A)     ↦   def T.m (p : T) (a : A) : Option T
//   func f(a A) R          ↦   def f (a : A) : Option R
//
// uintN ↦ BitVec N (wrap-around arithmetic as in Go), int ↦ Int, []T ↦ GoSlice T (elements and
// capacity), [N]T ↦ Array T, struct ↦ structure with the Go field names. Assignments follow the
// two phases of the Go specification (index operands on the left and all right-hand sides are
// evaluated first, then the assignments are carried out left to right). Used for ecs/pool.go
// (entityPool, bitPool) and lockMask (ecs/util.go). Anything outside the subset is refused, and
// a refusal is a failed obligation.

import (
	"fmt"
	"go/ast"
	"go/constant"
	"go/token"
	"go/types"
	"os"
	"regexp"
	"sort"
	"strings"
)

type itr struct {
	p          *pkgInfo
	errs       []string
	fresh      int
	recv       string // receiver variable name ("" for plain functions)
	recvTp     string // Lean type of the receiver
	hasRes     bool
	structs    map[string]bool     // struct types translated in this module
	opaque     map[string]bool     // struct types kept opaque (fields no translated method touches)
	maskNS     string              // namespace of the regenerated Mask methods
	ns         string              // namespace of this module
	externs    map[string]string   // "T.m" of methods kept uninterpreted -> Lean type of the function parameter
	needExt    map[string][]string // translated function -> extern parameters it takes
	extOwner   map[string]string   // extern parameter name -> "T.m"
	tokens     map[string]bool     // struct types outside the module whose values only occur behind pointers: *T is a token
	fieldExt   map[string]string   // "T.field" of function-typed fields kept uninterpreted -> extern parameter name
	tokExt     map[string]string   // "T.member" of token objects (fields / methods read through a pointer) -> extern parameter name
	ifaceExt   map[string]string   // interface method name -> extern parameter name (uninterpreted, first argument the value)
	alias      map[string]ast.Expr // e := &<lvalue>: e stands for the lvalue
	loopVar    string              // inside a loop body: the state variable the body function returns
	inout      map[string][]int    // translated function -> indices of pointer parameters returned as results
	retExtra   []string            // names of the in-out parameters of the function being translated
	relVar     map[string]string   // rf (from rf, ok := f.(*RelationFilter)) -> variable holding the optional target
	view       map[string][]string // struct -> the fields that are translated (a view of a larger struct)
	loopExtra  []string            // outer locals a loop body assigns: part of the loop state
	castVar    map[string]string   // cached (from cached, ok := f.(*CachedFilter)) -> variable holding the optional value
	effExt     map[string]string   // "T.method" of objects outside the module that change hidden state -> extern parameter name
	usesEff    map[string]bool     // translated functions that thread the hidden state `ext`
	curEff     bool                // the function being translated threads `ext`
	pureFn     map[string]string   // package-level functions translated elsewhere as pure Lean functions
	reslice    map[string]bool     // functions in which s[:hi] may extend into the hidden capacity
	curFn      string
	freeLoops  bool // range loops also in functions without a receiver
	curResT    []string
	rangeOnce  string
	brkVar     string
	worldExt   map[string]string // methods of the translated struct itself kept as state-threading externs
	effFn      map[string]string // package-level functions (`toIds`, `ecs.TypeID`) kept as state-threading externs; object arguments are dropped
	inject     map[string]string // concrete type -> injection into an interface-typed location (uninterpreted constructor)
	ptrInject  map[string]string // `*T` stored into an interface-typed field -> injection extern
	assertExt  map[string]string // `x.(*T)` for a translated struct T -> extern (none = the assertion panics)
	earlyItems string            // inside a loop with early returns: the loop state without the recorded result
	srcExt     map[string]string // calls identified by their source text (`q.world.closeQuery`) kept as state-threading externs writing through their first argument
	dropSelf   bool              // a pointer to the struct being translated handed to an extern (`arch.Init(a, …)`) is dropped
	selfRet    bool              // builder methods return their receiver: that result is dropped
	curSelfRet bool
	reflectIf  string            // extern that stands for an `if` over reflect calls assigning one Boolean
	tokField   map[string]string // `tok.field.Method(args)` on an object outside the module -> extern (tok.* = read, eff.* = write)
	shadow     map[string]bool
	joinIf     map[string]bool   // functions whose non-leaving if statements are joined
	ptrOption  bool              // *ID and *Mask are optional values (event code)
	effIface   map[string]string // interface methods that act on the hidden state -> extern
	nilChecks  map[string]bool   // functions in which a member access through a nil token pointer panics
	effInout   map[string][]int  // effectful externs: argument positions passed by pointer and written by the callee
	aliasCall  map[string]string // "T.method" of a translated struct that returns &recv.field -> field
}

// stateful: an extern that reads an object outside the module; inside a function that threads the hidden
// state it reads that state at the point of the call
func (t *itr) stateful(ext string) bool {
	return strings.HasPrefix(t.extOwner[ext], "tok.")
}

// tokenOrSelf: is tp a pointer to the struct whose method is being translated (the receiver handed to a callback)?
func (t *itr) tokenOrSelf(tp types.Type) (string, bool) {
	if p, ok := tp.(*types.Pointer); ok {
		if n, ok := p.Elem().(*types.Named); ok && n.Obj().Name() == "World" {
			return "World", true
		}
	}
	return "", false
}

// derefCheck: a member access through a nil pointer to an object outside the module panics
func (t *itr) derefCheck(recvT types.Type, recv string, pre *[]string) {
	if !t.nilChecks[t.curFn] {
		return
	}
	if _, ok := recvT.(*types.Pointer); ok {
		*pre = append(*pre, fmt.Sprintf("let _ ← %s", recv))
	}
}

func (t *itr) usesEffExt(name string) bool { _, ok := t.effExt[name]; return ok }

// injected: a value of a concrete type stored into an interface-typed location — an uninterpreted constructor
// per concrete type (`ofMaskF`, `ofMaskFilterF`, `ofCachedF`); objects outside the module are their own token
func (t *itr) injected(e ast.Expr, pre *[]string) (string, bool) {
	tp := t.typeOf(e)
	if _, isIface := tp.Underlying().(*types.Interface); isIface {
		return "", false
	}
	inner := e
	if u, ok := e.(*ast.UnaryExpr); ok && u.Op == token.AND {
		inner = u.X
	}
	bt := tp
	if p, ok := bt.(*types.Pointer); ok {
		bt = p.Elem()
	}
	n, ok := bt.(*types.Named)
	if !ok {
		return "", false
	}
	if t.tokens[n.Obj().Name()] {
		return t.expr(inner, pre), true
	}
	inj, ok := t.inject[n.Obj().Name()]
	if !ok {
		return "", false
	}
	return fmt.Sprintf("(%s %s)", inj, t.expr(inner, pre)), true
}

// pkgCall: `ecs.F(args)` — a function of another package
func (t *itr) pkgCall(sel *ast.SelectorExpr) (string, bool) {
	id, ok := sel.X.(*ast.Ident)
	if !ok {
		return "", false
	}
	if _, isPkg := t.p.info.Uses[id].(*types.PkgName); !isPkg {
		return "", false
	}
	return id.Name + "." + sel.Sel.Name, true
}

// effFnCall: a function kept as a state-threading extern; arguments that are objects outside the module are dropped
func (t *itr) effFnCall(ext string, argsE []ast.Expr, pre *[]string) string {
	if !t.curEff {
		return t.fail("state-threading function %s called from a function that does not thread the hidden state", ext)
	}
	as := []string{}
	for _, a := range argsE {
		if _, isTok := t.tokenOf(t.typeOf(a)); isTok {
			continue
		}
		if id, ok := a.(*ast.Ident); ok && id.Name == "nil" {
			as = append(as, "default")
			continue
		}
		as = append(as, t.expr(a, pre))
	}
	rv := t.tmp("r")
	*pre = append(*pre, fmt.Sprintf("let (ext, %s) := %s ext %s", rv, ext, strings.Join(as, " ")))
	return rv
}

// tokFieldCall: `a.f.M(args)` where a is an object outside the module and f one of its members that is
// itself a structure (the neighbour map of a graph node): the whole access is one extern on a
func (t *itr) tokFieldCall(sel *ast.SelectorExpr) (ext string, recv ast.Expr, ok bool) {
	inner, isSel := sel.X.(*ast.SelectorExpr)
	if !isSel {
		return "", nil, false
	}
	tn, isTok := t.tokenOf(t.typeOf(inner.X))
	if !isTok {
		return "", nil, false
	}
	ext, ok = t.tokField[tn+"."+inner.Sel.Name+"."+sel.Sel.Name]
	return ext, inner.X, ok
}

// tokCall renders the application of a token extern
func (t *itr) tokCall(ext string, args []string) string {
	if t.curEff && t.stateful(ext) {
		return fmt.Sprintf("(%s ext %s)", ext, strings.Join(args, " "))
	}
	return fmt.Sprintf("(%s %s)", ext, strings.Join(args, " "))
}

// resolveAlias: `w.Cache()` is `&w.filterCache`
func (t *itr) resolveAlias(e ast.Expr) (ast.Expr, bool) {
	call, ok := e.(*ast.CallExpr)
	if !ok || len(call.Args) != 0 {
		return nil, false
	}
	sel, ok := call.Fun.(*ast.SelectorExpr)
	if !ok {
		return nil, false
	}
	rt := t.typeOf(sel.X)
	if p, ok := rt.(*types.Pointer); ok {
		rt = p.Elem()
	}
	nt, ok := rt.(*types.Named)
	if !ok {
		return nil, false
	}
	field, ok := t.aliasCall[nt.Obj().Name()+"."+sel.Sel.Name]
	if !ok {
		return nil, false
	}
	st, ok := nt.Underlying().(*types.Struct)
	if !ok {
		return nil, false
	}
	ns := &ast.SelectorExpr{X: sel.X, Sel: ast.NewIdent(field)}
	for i := 0; i < st.NumFields(); i++ {
		if st.Field(i).Name() == field {
			t.p.info.Types[ns] = types.TypeAndValue{Type: st.Field(i).Type()}
		}
	}
	return ns, true
}

func (t *itr) fail(format string, a ...interface{}) string {
	t.errs = append(t.errs, fmt.Sprintf(format, a...))
	return "sorryUnsupported"
}

func (t *itr) tmp(prefix string) string {
	t.fresh++
	return fmt.Sprintf("%s%d", prefix, t.fresh)
}

// numericParam: a type parameter constrained by `number` (pool.go) is instantiated with uint32,
// its only instantiation in the library (intPool[uint32], the filter ids of the cache)
func numericParam(tp types.Type) bool {
	p, ok := tp.(*types.TypeParam)
	if !ok {
		return false
	}
	if n, ok := p.Constraint().(*types.Named); ok && n.Obj().Name() == "number" {
		return true
	}
	return false
}

func resolve(tp types.Type) types.Type {
	if numericParam(tp) {
		return types.Typ[types.Uint32]
	}
	return tp
}

func (t *itr) typeOf(e ast.Expr) types.Type {
	if tv, ok := t.p.info.Types[e]; ok {
		return resolve(tv.Type)
	}
	if id, ok := e.(*ast.Ident); ok {
		if o := t.p.info.Uses[id]; o != nil {
			return resolve(o.Type())
		}
		if o := t.p.info.Defs[id]; o != nil {
			return resolve(o.Type())
		}
	}
	return types.Typ[types.Invalid]
}

func (t *itr) leanType(tp types.Type) string {
	switch u := tp.(type) {
	case *types.Basic:
		switch u.Kind() {
		case types.Uint8:
			return "BitVec 8"
		case types.Uint16:
			return "BitVec 16"
		case types.Uint32:
			return "BitVec 32"
		case types.Uint64:
			return "BitVec 64"
		case types.Int32:
			return "BitVec 32" // signed: only conversions and indexing are translated
		case types.Int, types.UntypedInt:
			return "Int"
		case types.Bool, types.UntypedBool:
			return "Bool"
		case types.UnsafePointer:
			return "GoAny" // an address outside the module: nil or a token
		}
	case *types.TypeParam:
		if numericParam(u) {
			return "BitVec 32"
		}
		return u.Obj().Name()
	case *types.Interface:
		return "GoAny"
	case *types.Named:
		n := u.Obj().Name()
		switch n {
		case "ID", "ResID":
			return "BitVec 8"
		case "Mask":
			return t.maskNS + ".Mask"
		case "MaskFilter":
			if t.inject != nil {
				return t.maskNS + ".MaskFilter"
			}
		}
		if t.opaque[n] {
			return "Unit" // a field no translated method touches
		}
		if t.tokens[n] {
			return "Nat" // an object identified by a token; only pointers to it occur
		}
		if t.structs[n] {
			if t.shadow[n] {
				n = "_root_." + t.ns + "." + n // a field of that name declared earlier in the structure being emitted shadows the type
			}
			if st, ok := u.Underlying().(*types.Struct); ok {
				for i := 0; i < st.NumFields(); i++ {
					if st.Field(i).Name() == n {
						n = "_root_." + t.ns + "." + n // a field of the same name would shadow the type inside its own namespace
						break
					}
				}
			}
			if ta := u.TypeArgs(); ta != nil && ta.Len() > 0 {
				args := []string{}
				for i := 0; i < ta.Len(); i++ {
					if numericParam(ta.At(i)) || numericParam(u.Origin().TypeParams().At(i)) {
						continue
					}
					args = append(args, paren(t.leanType(ta.At(i))))
				}
				if len(args) == 0 {
					return n
				}
				return "(" + n + " " + strings.Join(args, " ") + ")"
			}
			return n
		}
		if _, ok := u.Underlying().(*types.Struct); ok {
			return t.fail("struct type %s is not part of this module", n)
		}
		return t.leanType(u.Underlying())
	case *types.Signature:
		return "Unit" // a function-typed field: its calls are uninterpreted function parameters
	case *types.Pointer:
		if n, ok := u.Elem().(*types.Named); ok && t.tokens[n.Obj().Name()] {
			return "Option Nat" // nil or a pointer to an object outside the module
		}
		if n, ok := u.Elem().(*types.Named); ok && (n.Obj().Name() == "ID" || n.Obj().Name() == "Mask") && t.ptrOption {
			return "Option (" + t.leanType(u.Elem()) + ")" // *ID / *Mask: nil or a value
		}
		if _, ok := u.Elem().(*types.TypeParam); ok && !numericParam(u.Elem()) {
			return "Option " + u.Elem().(*types.TypeParam).Obj().Name() // *T: nil or an element
		}
		return t.leanType(u.Elem())
	case *types.Map:
		return "GoMap (" + t.leanType(u.Key()) + ") (" + t.leanType(u.Elem()) + ")"
	case *types.Slice:
		return "GoSlice (" + t.leanType(u.Elem()) + ")"
	case *types.Array:
		return "Array (" + t.leanType(u.Elem()) + ")"
	}
	return t.fail("unsupported type %s", tp.String())
}

func (t *itr) constOf(e ast.Expr) (string, bool) {
	tv, ok := t.p.info.Types[e]
	if !ok || tv.Value == nil {
		return "", false
	}
	tp := resolve(tv.Type)
	if b, ok := tp.Underlying().(*types.Basic); ok && (b.Kind() == types.Bool || b.Kind() == types.UntypedBool) {
		if constant.BoolVal(tv.Value) {
			return "true", true
		}
		return "false", true
	}
	if w, ok := isBV(tp); ok {
		return fmt.Sprintf("%s#%d", tv.Value.ExactString(), w), true
	}
	if b, ok := tp.Underlying().(*types.Basic); ok && b.Kind() == types.Int32 && constant.Sign(tv.Value) >= 0 {
		return fmt.Sprintf("%s#32", tv.Value.ExactString()), true
	}
	if isInt(tp) {
		return fmt.Sprintf("(%s : Int)", tv.Value.ExactString()), true
	}
	return "", false
}

// natOf renders an index expression as a Nat
func (t *itr) natOf(e ast.Expr, pre *[]string) string {
	v := t.expr(e, pre)
	tp := t.typeOf(e)
	if _, ok := isBV(tp); ok {
		return "(" + v + ").toNat"
	}
	if b, ok := tp.Underlying().(*types.Basic); ok && b.Kind() == types.Int32 {
		n := t.tmp("n")
		*pre = append(*pre, fmt.Sprintf("let %s ← GoInt.toIndex (%s).toInt", n, v))
		return n
	}
	if isInt(tp) {
		// a negative index panics
		n := t.tmp("n")
		*pre = append(*pre, fmt.Sprintf("let %s ← GoInt.toIndex %s", n, v))
		return n
	}
	return t.fail("unsupported index type %s", tp)
}

// tokenOf: the type is (a pointer to) a struct outside the module that is handled as a token
func (t *itr) tokenOf(tp types.Type) (string, bool) {
	if p, ok := tp.(*types.Pointer); ok {
		tp = p.Elem()
	}
	if n, ok := tp.(*types.Named); ok && t.tokens[n.Obj().Name()] {
		return n.Obj().Name(), true
	}
	return "", false
}

func isSliceT(tp types.Type) bool { _, ok := tp.Underlying().(*types.Slice); return ok }
func isMapT(tp types.Type) bool   { _, ok := tp.Underlying().(*types.Map); return ok }
func isArrayT(tp types.Type) bool { _, ok := tp.Underlying().(*types.Array); return ok }

func (t *itr) getFn(tp types.Type) string {
	if isMapT(tp) {
		return "GoMap.get"
	}
	if isSliceT(tp) {
		return "GoSlice.get"
	}
	return "GoArr.get"
}
func (t *itr) setFn(tp types.Type) string {
	if isMapT(tp) {
		return "GoMap.set"
	}
	if isSliceT(tp) {
		return "GoSlice.set"
	}
	return "GoArr.set"
}

// expr translates an expression; statements needed before it (index reads, calls) go to pre.
func (t *itr) expr(e ast.Expr, pre *[]string) string {
	if c, ok := t.constOf(e); ok {
		return c
	}
	switch x := e.(type) {
	case *ast.StarExpr:
		if strings.HasPrefix(t.leanType(t.typeOf(x.X)), "Option (") {
			// *p for an optional value: a nil pointer dereference panics
			v := t.tmp("d")
			*pre = append(*pre, fmt.Sprintf("let %s ← %s", v, t.expr(x.X, pre)))
			return v
		}
	case *ast.ParenExpr:
		return "(" + t.expr(x.X, pre) + ")"
	case *ast.Ident:
		if x.Name == "true" || x.Name == "false" {
			return x.Name
		}
		if a, ok := t.alias[x.Name]; ok {
			return t.expr(a, pre)
		}
		if x.Name == "nil" {
			if tv, ok := t.p.info.Types[x]; ok && tv.Type != nil {
				if isSliceT(tv.Type) || isMapT(tv.Type) {
					return "(default : " + t.leanType(tv.Type) + ")" // the nil slice / map
				}
			}
			return "none"
		}
		return x.Name
	case *ast.SelectorExpr:
		if n, ok := t.typeOf(x.X).(*types.Named); ok && (n.Obj().Name() == "ID" || n.Obj().Name() == "ResID") && x.Sel.Name == "id" {
			return t.expr(x.X, pre) // ID{id} / ResID{id} are their id
		}
		if id, ok := x.X.(*ast.Ident); ok && t.relVar[id.Name] != "" && x.Sel.Name == "Target" {
			return "((" + t.relVar[id.Name] + ").getD default)"
		}
		if tn, ok := t.tokenOf(t.typeOf(x.X)); ok {
			if ext, ok := t.tokExt[tn+"."+x.Sel.Name]; ok {
				rv := t.expr(x.X, pre)
				t.derefCheck(t.typeOf(x.X), rv, pre)
				return t.tokCall(ext, []string{rv})
			}
			return t.fail("member %s of an object outside the module", tn+"."+x.Sel.Name)
		}
		return "(" + t.expr(x.X, pre) + ")." + x.Sel.Name
	case *ast.IndexExpr:
		if isMapT(t.typeOf(x.X)) {
			return fmt.Sprintf("((GoMap.find %s %s).getD default)", t.expr(x.X, pre), t.expr(x.Index, pre))
		}
		base := t.expr(x.X, pre)
		idx := t.natOf(x.Index, pre)
		v := t.tmp("t")
		*pre = append(*pre, fmt.Sprintf("let %s ← %s %s %s", v, t.getFn(t.typeOf(x.X)), base, idx))
		return v
	case *ast.UnaryExpr:
		if x.Op == token.NOT {
			return "(!" + t.expr(x.X, pre) + ")"
		}
		if x.Op == token.AND {
			return t.expr(x.X, pre) // &v passed to a callee that only reads it
		}
		if x.Op == token.XOR {
			if _, ok := isBV(t.typeOf(x.X)); ok {
				return "(~~~" + t.expr(x.X, pre) + ")"
			}
		}
		if x.Op == token.SUB {
			if tv, ok := t.p.info.Types[x]; ok && tv.Value != nil {
				// a negative constant
				lt := t.leanType(tv.Type)
				if strings.HasPrefix(lt, "BitVec ") {
					return fmt.Sprintf("(BitVec.ofInt %s (%s))", strings.TrimPrefix(lt, "BitVec "), tv.Value.ExactString())
				}
				if lt == "Int" {
					return fmt.Sprintf("((%s) : Int)", tv.Value.ExactString())
				}
			}
		}
		return t.fail("unsupported unary operator %s", x.Op)
	case *ast.BinaryExpr:
		if id, ok := x.Y.(*ast.Ident); ok && id.Name == "nil" && (x.Op == token.EQL || x.Op == token.NEQ) {
			if _, isIface := t.typeOf(x.X).Underlying().(*types.Interface); isIface {
				if x.Op == token.EQL {
					return "(" + t.expr(x.X, pre) + ").isNone"
				}
				return "(" + t.expr(x.X, pre) + ").isSome"
			}
			if isSliceT(t.typeOf(x.X)) {
				if x.Op == token.EQL {
					return "(GoSlice.isNil " + t.expr(x.X, pre) + ")"
				}
				return "(!(GoSlice.isNil " + t.expr(x.X, pre) + "))"
			}
			if isMapT(t.typeOf(x.X)) {
				if x.Op == token.EQL {
					return "(GoMap.isNil " + t.expr(x.X, pre) + ")"
				}
				return "(!(GoMap.isNil " + t.expr(x.X, pre) + "))"
			}
			if _, isPtr := t.typeOf(x.X).(*types.Pointer); isPtr && strings.HasPrefix(t.leanType(t.typeOf(x.X)), "Option ") {
				if x.Op == token.EQL {
					return "(" + t.expr(x.X, pre) + ").isNone"
				}
				return "(" + t.expr(x.X, pre) + ").isSome"
			}
			return t.fail("comparison of a non-interface value with nil")
		}
		if (x.Op == token.LAND || x.Op == token.LOR) && t.nilChecks[t.curFn] {
			// Go evaluates the right operand only when the left one does not decide: what the right operand
			// needs evaluated first (index reads, nil checks) stays behind the left operand
			a := t.expr(x.X, pre)
			rpre := []string{}
			b := t.expr(x.Y, &rpre)
			if len(rpre) > 0 {
				v := t.tmp("b")
				// state the right operand changes comes back out of the branch
				outs := []string{}
				for _, sv := range []string{t.recv, "ext"} {
					for _, l := range rpre {
						if sv != "" && (strings.HasPrefix(l, "let "+sv+" :=") || strings.HasPrefix(l, "let (ext,") && sv == "ext") {
							outs = append(outs, sv)
							break
						}
					}
				}
				res, skip, bind := paren(b), "false", v
				if x.Op == token.LOR {
					skip = "true"
				}
				if len(outs) > 0 {
					res = "(" + b + ", " + strings.Join(outs, ", ") + ")"
					skip = "(" + skip + ", " + strings.Join(outs, ", ") + ")"
					bind = "(" + v + ", " + strings.Join(outs, ", ") + ")"
				}
				body := strings.Join(append(rpre, "pure "+res), "; ")
				if x.Op == token.LAND {
					*pre = append(*pre, fmt.Sprintf("let %s ← (if %s then (do %s) else pure %s)", bind, a, body, skip))
				} else {
					*pre = append(*pre, fmt.Sprintf("let %s ← (if %s then pure %s else (do %s))", bind, a, skip, body))
				}
				return v
			}
			if x.Op == token.LAND {
				return fmt.Sprintf("(%s && %s)", a, b)
			}
			return fmt.Sprintf("(%s || %s)", a, b)
		}
		a, b := t.expr(x.X, pre), t.expr(x.Y, pre)
		tp := t.typeOf(x.X)
		_, bv := isBV(tp)
		in := isInt(tp)
		switch x.Op {
		case token.EQL:
			return fmt.Sprintf("(%s == %s)", a, b)
		case token.NEQ:
			return fmt.Sprintf("(%s != %s)", a, b)
		case token.LAND:
			return fmt.Sprintf("(%s && %s)", a, b)
		case token.LOR:
			return fmt.Sprintf("(%s || %s)", a, b)
		case token.ADD, token.SUB, token.MUL:
			op := map[token.Token]string{token.ADD: "+", token.SUB: "-", token.MUL: "*"}[x.Op]
			if b32, ok := tp.Underlying().(*types.Basic); ok && b32.Kind() == types.Int32 && x.Op != token.MUL {
				return fmt.Sprintf("(%s %s %s)", a, op, b) // int32 as BitVec 32 (two's complement, wraps like Go)
			}
			if bv || in {
				return fmt.Sprintf("(%s %s %s)", a, op, b)
			}
		case token.QUO, token.REM:
			// a zero divisor panics in Go; only constant non-zero divisors are accepted
			if tv, ok := t.p.info.Types[x.Y]; !ok || tv.Value == nil || constant.Sign(tv.Value) == 0 {
				return t.fail("division by a non-constant or zero divisor")
			}
			if bv {
				if x.Op == token.QUO {
					return fmt.Sprintf("(%s / %s)", a, b)
				}
				return fmt.Sprintf("(%s %% %s)", a, b)
			}
			if in {
				if x.Op == token.QUO {
					return fmt.Sprintf("(Int.tdiv %s %s)", a, b)
				}
				return fmt.Sprintf("(Int.tmod %s %s)", a, b)
			}
		case token.AND, token.OR, token.XOR, token.AND_NOT:
			if bv {
				switch x.Op {
				case token.AND:
					return fmt.Sprintf("(%s &&& %s)", a, b)
				case token.OR:
					return fmt.Sprintf("(%s ||| %s)", a, b)
				case token.XOR:
					return fmt.Sprintf("(%s ^^^ %s)", a, b)
				default:
					return fmt.Sprintf("(%s &&& ~~~%s)", a, b)
				}
			}
		case token.SHL, token.SHR:
			if _, cbv := isBV(t.typeOf(x.Y)); bv && cbv {
				if x.Op == token.SHL {
					return fmt.Sprintf("(%s <<< (%s).toNat)", a, b)
				}
				return fmt.Sprintf("(%s >>> (%s).toNat)", a, b)
			}
		case token.LSS, token.LEQ, token.GTR, token.GEQ:
			if x.Op == token.GTR || x.Op == token.GEQ {
				a, b = b, a
			}
			strict := x.Op == token.LSS || x.Op == token.GTR
			if bv {
				if strict {
					return fmt.Sprintf("(BitVec.ult %s %s)", a, b)
				}
				return fmt.Sprintf("(BitVec.ule %s %s)", a, b)
			}
			if in {
				if strict {
					return fmt.Sprintf("(decide (%s < %s))", a, b)
				}
				return fmt.Sprintf("(decide (%s ≤ %s))", a, b)
			}
			if b32, ok := tp.Underlying().(*types.Basic); ok && b32.Kind() == types.Int32 {
				// signed 32-bit comparison
				if strict {
					return fmt.Sprintf("(BitVec.slt %s %s)", a, b)
				}
				return fmt.Sprintf("(BitVec.sle %s %s)", a, b)
			}
		}
		return t.fail("unsupported binary operator %s on %s", x.Op, tp)
	case *ast.CompositeLit:
		tp := t.typeOf(x)
		if n, ok := tp.(*types.Named); ok && (n.Obj().Name() == "ID" || n.Obj().Name() == "ResID") && len(x.Elts) == 1 {
			if kv, ok := x.Elts[0].(*ast.KeyValueExpr); ok {
				return t.expr(kv.Value, pre)
			}
			return t.expr(x.Elts[0], pre)
		}
		if isMapT(tp) && len(x.Elts) == 0 {
			return fmt.Sprintf("(GoMap.empty : %s)", t.leanType(tp)) // an empty, non-nil map
		}
		if isSliceT(tp) && len(x.Elts) == 0 {
			return fmt.Sprintf("(default : %s)", t.leanType(tp)) // empty (identified with nil)
		}
		st, ok := tp.Underlying().(*types.Struct)
		if !ok {
			return t.fail("unsupported composite literal of type %s", tp)
		}
		if len(x.Elts) == 0 {
			return fmt.Sprintf("(default : %s)", t.leanType(tp)) // the zero value
		}
		fields := []string{}
		seen := map[string]bool{}
		inView := func(string) bool { return true }
		if nt, ok := tp.(*types.Named); ok {
			if vw, ok := t.view[nt.Obj().Name()]; ok {
				// only the fields of the view exist in the translated structure (a back pointer like `world` does not)
				inView = func(n string) bool {
					for _, f := range vw {
						if f == n {
							return true
						}
					}
					return false
				}
			}
		}
		for i, el := range x.Elts {
			if kv, ok := el.(*ast.KeyValueExpr); ok {
				n := kv.Key.(*ast.Ident).Name
				seen[n] = true
				if !inView(n) {
					continue
				}
				if inj := t.injectInto(st, n, kv.Value); inj != "" {
					fields = append(fields, fmt.Sprintf("%s := (%s %s)", n, inj, t.expr(kv.Value, pre)))
					continue
				}
				if id, ok := kv.Value.(*ast.Ident); ok && id.Name == "nil" {
					fields = append(fields, fmt.Sprintf("%s := default", n)) // nil slice / map / interface / pointer
				} else if u, ok := kv.Value.(*ast.UnaryExpr); ok && u.Op == token.AND && strings.HasPrefix(t.leanType(t.typeOf(kv.Value)), "Option (") {
					fields = append(fields, fmt.Sprintf("%s := (some %s)", n, t.expr(u.X, pre))) // &v for an optional value
				} else {
					fields = append(fields, fmt.Sprintf("%s := %s", n, t.expr(kv.Value, pre)))
				}
			} else {
				n := st.Field(i).Name()
				seen[n] = true
				fields = append(fields, fmt.Sprintf("%s := %s", n, t.expr(el, pre)))
			}
		}
		for i := 0; i < st.NumFields(); i++ {
			if !seen[st.Field(i).Name()] && inView(st.Field(i).Name()) {
				fields = append(fields, fmt.Sprintf("%s := default", st.Field(i).Name()))
			}
		}
		return fmt.Sprintf("({ %s } : %s)", strings.Join(fields, ", "), t.leanType(tp))
	case *ast.CallExpr:
		return t.call(x, pre, true)
	case *ast.SliceExpr:
		if x.Low != nil || x.High == nil || x.Slice3 || !isSliceT(t.typeOf(x.X)) {
			return t.fail("unsupported slice expression %s", types.ExprString(e))
		}
		base := t.expr(x.X, pre)
		hi := t.asInt(x.High, pre)
		v := t.tmp("s")
		if t.reslice[t.curFn] {
			// s[:hi] may reach into the hidden capacity: what lies there is an unknown (`staleF`)
			*pre = append(*pre, fmt.Sprintf("let %s ← GoSlice.reslice %s %s staleF", v, base, hi))
			return v
		}
		*pre = append(*pre, fmt.Sprintf("let %s ← GoSlice.prefix %s %s", v, base, hi))
		return v
	}
	return t.fail("unsupported expression %s", types.ExprString(e))
}

// conv renders a conversion T(x)
func (t *itr) conv(to types.Type, arg ast.Expr, pre *[]string) string {
	from := t.typeOf(arg)
	v := t.expr(arg, pre)
	if n, ok := to.(*types.Named); ok && n.Obj().Name() == "ID" {
		return v
	}
	isI32 := func(tp types.Type) bool {
		b, ok := tp.Underlying().(*types.Basic)
		return ok && b.Kind() == types.Int32
	}
	if isI32(to) && isI32(from) {
		return v
	}
	if isI32(to) && isInt(from) {
		return fmt.Sprintf("(BitVec.ofInt 32 %s)", v)
	}
	if isInt(to) && isI32(from) {
		return fmt.Sprintf("((%s).toInt)", v)
	}
	to = resolve(to)
	wt, tbv := isBV(to)
	wf, fbv := isBV(from)
	switch {
	case tbv && fbv:
		if wt == wf {
			return v
		}
		return fmt.Sprintf("(BitVec.setWidth %d %s)", wt, v)
	case tbv && isInt(from):
		return fmt.Sprintf("(BitVec.ofInt %d %s)", wt, v)
	case isInt(to) && fbv:
		return fmt.Sprintf("(((%s).toNat : Nat) : Int)", v)
	case isInt(to) && isInt(from):
		return v
	}
	return t.fail("unsupported conversion %s -> %s", from, to)
}

// call translates a call; wantValue says whether the result is used.
func (t *itr) call(x *ast.CallExpr, pre *[]string, wantValue bool) string {
	if a, ok := t.resolveAlias(x); ok {
		return t.expr(a, pre)
	}
	// conversion?
	if tv, ok := t.p.info.Types[x.Fun]; ok && tv.IsType() && len(x.Args) == 1 {
		return t.conv(tv.Type, x.Args[0], pre)
	}
	if id, ok := x.Fun.(*ast.Ident); ok {
		switch id.Name {
		case "len":
			if isMapT(t.typeOf(x.Args[0])) {
				return fmt.Sprintf("(((%s).len : Nat) : Int)", t.expr(x.Args[0], pre))
			}
			return fmt.Sprintf("(((%s).size : Nat) : Int)", t.expr(x.Args[0], pre))
		case "cap":
			if isSliceT(t.typeOf(x.Args[0])) {
				return fmt.Sprintf("(((%s).cap : Nat) : Int)", t.expr(x.Args[0], pre))
			}
			return fmt.Sprintf("(((%s).size : Nat) : Int)", t.expr(x.Args[0], pre))
		case "make":
			tp := t.typeOf(x.Args[0])
			sl, ok := tp.Underlying().(*types.Slice)
			if !ok || (len(x.Args) != 3 && len(x.Args) != 2) {
				return t.fail("unsupported make")
			}
			l := t.asInt(x.Args[1], pre)
			c := l
			if len(x.Args) == 3 {
				c = t.asInt(x.Args[2], pre)
			}
			v := t.tmp("s")
			*pre = append(*pre, fmt.Sprintf("let %s ← GoSlice.make (α := %s) %s %s", v, t.leanType(sl.Elem()), l, c))
			return v
		case "append":
			if len(x.Args) == 2 && x.Ellipsis != token.NoPos {
				return fmt.Sprintf("(GoSlice.appendAll %s %s)", t.expr(x.Args[0], pre), t.expr(x.Args[1], pre))
			}
			if len(x.Args) != 2 || x.Ellipsis != token.NoPos {
				return t.fail("unsupported append")
			}
			return fmt.Sprintf("(GoSlice.append %s %s)", t.expr(x.Args[0], pre), t.expr(x.Args[1], pre))
		case "id":
			if len(x.Args) == 1 {
				return t.expr(x.Args[0], pre)
			}
		case "panic":
			return t.fail("panic in expression position")
		}
		if ext, ok := t.effFn[id.Name]; ok {
			return t.effFnCall(ext, x.Args, pre)
		}
		if pf, ok := t.pureFn[id.Name]; ok {
			args := []string{}
			for _, a := range x.Args {
				if nid, ok := a.(*ast.Ident); ok && nid.Name == "nil" {
					args = append(args, "none")
				} else if u, ok := a.(*ast.UnaryExpr); ok && u.Op == token.AND {
					args = append(args, "(some "+t.expr(u.X, pre)+")")
				} else if b, ok := t.typeOf(a).Underlying().(*types.Basic); ok && b.Info()&types.IsBoolean != 0 {
					args = append(args, t.expr(a, pre))
				} else if isInt(t.typeOf(a)) {
					args = append(args, t.asInt(a, pre))
				} else {
					args = append(args, t.expr(a, pre))
				}
			}
			return fmt.Sprintf("(%s %s)", pf, strings.Join(args, " "))
		}
		// package-level function translated in this module
		if _, ok := t.p.funcs[id.Name]; ok {
			args := []string{}
			for _, a := range x.Args {
				args = append(args, t.expr(a, pre))
			}
			extArgs := ""
			for _, e := range t.needExt[id.Name] {
				if t.curEff && t.stateful(e) {
					extArgs += " (" + e + " ext)"
				} else {
					extArgs += " " + e
				}
			}
			v := t.tmp("r")
			*pre = append(*pre, fmt.Sprintf("let %s ← %s%s %s", v, id.Name, extArgs, strings.Join(args, " ")))
			return v
		}
		return t.fail("unsupported call %s", id.Name)
	}
	sel, ok := x.Fun.(*ast.SelectorExpr)
	if !ok {
		return t.fail("unsupported call %s", types.ExprString(x.Fun))
	}
	// call of a function-typed field kept uninterpreted
	if selInfo, ok := t.p.info.Selections[sel]; ok && selInfo.Kind() == types.FieldVal {
		rt := selInfo.Recv()
		if p, ok := rt.(*types.Pointer); ok {
			rt = p.Elem()
		}
		if nt, ok := rt.(*types.Named); ok {
			if ext, ok := t.fieldExt[nt.Obj().Name()+"."+sel.Sel.Name]; ok {
				args := []string{}
				for _, a := range x.Args {
					args = append(args, t.expr(a, pre))
				}
				return fmt.Sprintf("(%s %s)", ext, strings.Join(args, " "))
			}
		}
		return t.fail("call of a function-typed field: %s", types.ExprString(x.Fun))
	}
	if ext, ok := t.srcExt[types.ExprString(x.Fun)]; ok && len(x.Args) >= 1 {
		// a call kept outside that acts on the hidden state and writes through its first argument
		if !t.curEff {
			return t.fail("state-threading call %s in a function that does not thread the hidden state", types.ExprString(x.Fun))
		}
		as := []string{}
		for _, a := range x.Args {
			as = append(as, t.expr(a, pre))
		}
		rv := t.tmp("r")
		*pre = append(*pre, fmt.Sprintf("let (ext, %s) := %s ext %s", rv, ext, strings.Join(as, " ")))
		*pre = append(*pre, t.assignPath(x.Args[0], rv, nil)...)
		return "()"
	}
	if key, ok := t.pkgCall(sel); ok {
		if ext, ok := t.effFn[key]; ok {
			return t.effFnCall(ext, x.Args, pre)
		}
		if pf, ok := t.pureFn[key]; ok {
			as := []string{}
			for _, a := range x.Args {
				as = append(as, t.expr(a, pre))
			}
			return fmt.Sprintf("(%s %s)", pf, strings.Join(as, " "))
		}
		return t.fail("call into another package: %s", key)
	}
	if rt := t.typeOf(sel.X); rt != nil {
		bt := rt
		if p, ok := bt.(*types.Pointer); ok {
			bt = p.Elem()
		}
		if n, ok := bt.(*types.Named); ok {
			if ext, ok := t.effFn[n.Obj().Name()+"."+sel.Sel.Name]; ok {
				// a method of an object reached through the world (`w.Cache().Register(f)`): the receiver is the hidden state
				return t.effFnCall(ext, x.Args, pre)
			}
		}
	}
	if ext, rcv, ok := t.tokFieldCall(sel); ok {
		as := []string{t.expr(rcv, pre)}
		t.derefCheck(t.typeOf(rcv), as[0], pre)
		for _, a := range x.Args {
			as = append(as, t.expr(a, pre))
		}
		if strings.HasPrefix(t.extOwner[ext], "eff.") {
			if !t.curEff {
				return t.fail("effectful call %s in a function that does not thread the hidden state", ext)
			}
			rv := t.tmp("r")
			*pre = append(*pre, fmt.Sprintf("let (ext, %s) := %s ext %s", rv, ext, strings.Join(as, " ")))
			return rv
		}
		return t.tokCall(ext, as)
	}
	// method call on an lvalue path
	recvTp := t.typeOf(sel.X)
	if p, ok := recvTp.(*types.Pointer); ok {
		recvTp = p.Elem()
	}
	named, ok := recvTp.(*types.Named)
	if ok {
		if _, isIface := named.Underlying().(*types.Interface); isIface {
			if ext, ok := t.effIface[sel.Sel.Name]; ok {
				// a callback into code outside the module: it acts on the hidden state; the world pointer it is
				// handed is not modelled (what a callback does to the world is outside the translation)
				if !t.curEff {
					return t.fail("effectful interface call %s in a function that does not thread the hidden state", sel.Sel.Name)
				}
				as := []string{t.expr(sel.X, pre)}
				for _, a := range x.Args {
					if _, isW := t.tokenOrSelf(t.typeOf(a)); isW {
						continue
					}
					as = append(as, t.expr(a, pre))
				}
				rv := t.tmp("r")
				*pre = append(*pre, fmt.Sprintf("let (ext, %s) := %s ext %s", rv, ext, strings.Join(as, " ")))
				return rv
			}
			if ext, ok := t.ifaceExt[sel.Sel.Name]; ok {
				as := []string{t.expr(sel.X, pre)}
				for _, a := range x.Args {
					as = append(as, t.expr(a, pre))
				}
				return t.tokCall(ext, as)
			}
			return t.fail("call of interface method %s", sel.Sel.Name)
		}
	}
	if !ok {
		return t.fail("unsupported method receiver %s", recvTp)
	}
	args := []string{}
	for _, a := range x.Args {
		if id, ok := a.(*ast.Ident); ok && t.dropSelf && t.recv != "" && id.Name == t.recv {
			continue // the receiver itself handed to code outside the module
		}
		if cl, ok := a.(*ast.CompositeLit); ok && len(cl.Elts) == 0 {
			if _, isTok := t.tokenOf(t.typeOf(a)); isTok {
				continue // the zero value of an object outside the module (pagedSlice.Add(archetype{}))
			}
		}
		if id, ok := a.(*ast.Ident); ok && id.Name == "nil" {
			args = append(args, "default") // a nil slice / map / pointer argument
			continue
		}
		args = append(args, t.expr(a, pre))
	}
	if sig, ok := t.typeOf(x.Fun).(*types.Signature); ok && sig.Variadic() && x.Ellipsis == token.NoPos && len(x.Args) == sig.Params().Len()-1 {
		args = append(args, "default") // a variadic parameter without arguments: the nil slice
	}
	recvVal := t.expr(sel.X, pre)
	tn := named.Obj().Name()
	if tn == "Mask" {
		if _, isPtr := t.typeOf(sel.X).(*types.Pointer); isPtr && strings.HasPrefix(t.leanType(t.typeOf(sel.X)), "Option (") {
			// a method on *Mask held as an optional value: nil panics
			dv := t.tmp("m")
			*pre = append(*pre, fmt.Sprintf("let %s ← %s", dv, recvVal))
			recvVal = dv
		}
		for i, a := range x.Args {
			if _, isPtr := t.typeOf(a).(*types.Pointer); isPtr && strings.HasPrefix(t.leanType(t.typeOf(a)), "Option (") {
				if _, isAddr := a.(*ast.UnaryExpr); !isAddr && i < len(args) {
					dv := t.tmp("m")
					*pre = append(*pre, fmt.Sprintf("let %s ← %s", dv, args[i]))
					args[i] = dv
				}
			}
		}
		// regenerated pure Mask methods; Set / Reset mutate the receiver
		fn := t.maskNS + ".Mask." + sel.Sel.Name
		callS := fmt.Sprintf("(%s %s %s)", fn, recvVal, strings.Join(args, " "))
		if sel.Sel.Name == "Set" || sel.Sel.Name == "Reset" {
			*pre = append(*pre, t.assignPath(sel.X, callS, nil)...)
			return "()"
		}
		return callS
	}
	if ext, ok := t.effExt[tn+"."+sel.Sel.Name]; ok && t.tokens[tn] {
		// a method of an object outside the module that changes that object: the hidden state `ext`
		// is threaded through the call
		if !t.curEff {
			return t.fail("effectful call %s.%s in a function that does not thread the hidden state", tn, sel.Sel.Name)
		}
		rv := t.tmp("r")
		t.derefCheck(t.typeOf(sel.X), recvVal, pre)
		*pre = append(*pre, fmt.Sprintf("let (ext, %s) := %s ext %s", rv, ext, strings.Join(append([]string{recvVal}, args...), " ")))
		if io := t.effInout[tn+"."+sel.Sel.Name]; len(io) > 0 {
			// the callee writes through these pointer arguments: the extern returns their new values
			if len(io) != 1 {
				return t.fail("unsupported in-out shape of effectful extern %s", ext)
			}
			*pre = append(*pre, t.assignPath(x.Args[io[0]], rv, nil)...)
			return "()"
		}
		return rv
	}
	if ext, ok := t.tokExt[tn+"."+sel.Sel.Name]; ok && t.tokens[tn] {
		t.derefCheck(t.typeOf(sel.X), recvVal, pre)
		return t.tokCall(ext, append([]string{recvVal}, args...))
	}
	if _, isExt := t.externs[tn+"."+sel.Sel.Name]; isExt {
		// an uninterpreted function of its arguments (not of the receiver's state)
		return fmt.Sprintf("(%s %s)", sel.Sel.Name+"F", strings.Join(args, " "))
	}
	if tn == "Subscription" && len(args) == 1 && (sel.Sel.Name == "Contains" || sel.Sel.Name == "ContainsAny") {
		// ecs/event/event.go: `(bits & s) == bits` and `(bits & s) != 0` on the uint8 bit set (written out here; the
		// two one-line bodies are compared with the source by the facts check `subscriptionBodies`)
		if err := t.checkSubscriptionBodies(); err != "" {
			return t.fail("%s", err)
		}
		if sel.Sel.Name == "Contains" {
			return fmt.Sprintf("((%s &&& %s) == %s)", args[0], recvVal, args[0])
		}
		return fmt.Sprintf("((%s &&& %s) != 0#8)", args[0], recvVal)
	}
	if !t.structs[tn] {
		return t.fail("method call on a type outside this module: %s", tn)
	}
	fd, ok := t.p.funcs[tn+"."+sel.Sel.Name]
	if !ok {
		return t.fail("unknown method %s.%s", tn, sel.Sel.Name)
	}
	hasRes := fd.Type.Results != nil && len(fd.Type.Results.List) > 0
	extArgs := ""
	if ext, ok := t.worldExt[tn+"."+sel.Sel.Name]; ok {
		// a method of the translated struct kept outside: it may change the struct and the hidden state
		if !t.curEff {
			return t.fail("state-threading method %s.%s called from a function that does not thread the hidden state", tn, sel.Sel.Name)
		}
		nr, rv := t.tmp("o"), t.tmp("r")
		*pre = append(*pre, fmt.Sprintf("let (ext, %s, %s) := %s ext %s %s", nr, rv, ext, recvVal, strings.Join(args, " ")))
		*pre = append(*pre, t.assignPath(sel.X, nr, nil)...)
		return rv
	}
	calleeEff := t.usesEff[tn+"."+sel.Sel.Name]
	if calleeEff && !t.curEff {
		return t.fail("call of a function that threads the hidden state from one that does not: %s", tn+"."+sel.Sel.Name)
	}
	for _, e := range t.needExt[tn+"."+sel.Sel.Name] {
		if t.curEff && !calleeEff && t.stateful(e) {
			extArgs += " (" + e + " ext)"
		} else {
			extArgs += " " + e
		}
	}
	if calleeEff {
		// the callee threads the hidden state too: hand it over and take it back
		if _, ok := fd.Recv.List[0].Type.(*ast.StarExpr); !ok {
			return t.fail("unsupported: value receiver of a state-threading callee %s", tn+"."+sel.Sel.Name)
		}
		callE := fmt.Sprintf("%s.%s%s %s %s ext", tn, sel.Sel.Name, extArgs, recvVal, strings.Join(args, " "))
		nr := t.tmp("o")
		if io := t.inout[tn+"."+sel.Sel.Name]; len(io) > 0 {
			// the pointer parameter the callee writes through comes back between the receiver and the hidden state
			if len(io) != 1 || !hasRes {
				return t.fail("unsupported: in-out shape of a state-threading callee %s", tn+"."+sel.Sel.Name)
			}
			pv, rv := t.tmp("p"), t.tmp("r")
			*pre = append(*pre, fmt.Sprintf("let (%s, %s, ext, %s) ← %s", nr, pv, rv, callE))
			*pre = append(*pre, t.assignPath(sel.X, nr, nil)...)
			*pre = append(*pre, t.assignPath(x.Args[io[0]], pv, nil)...)
			return rv
		}
		if hasRes {
			rv := t.tmp("r")
			*pre = append(*pre, fmt.Sprintf("let (%s, ext, %s) ← %s", nr, rv, callE))
			*pre = append(*pre, t.assignPath(sel.X, nr, nil)...)
			return rv
		}
		*pre = append(*pre, fmt.Sprintf("let (%s, ext) ← %s", nr, callE))
		*pre = append(*pre, t.assignPath(sel.X, nr, nil)...)
		return "()"
	}
	callS := fmt.Sprintf("%s.%s%s %s %s", tn, sel.Sel.Name, extArgs, recvVal, strings.Join(args, " "))
	ptrRecv := false
	if _, ok := fd.Recv.List[0].Type.(*ast.StarExpr); ok {
		ptrRecv = true
	}
	if io := t.inout[tn+"."+sel.Sel.Name]; len(io) > 0 {
		// pointer parameters the callee writes through come back as extra results
		if !ptrRecv || hasRes || len(io) != 1 {
			return t.fail("unsupported in-out call shape %s", tn+"."+sel.Sel.Name)
		}
		nr, pv := t.tmp("o"), t.tmp("p")
		*pre = append(*pre, fmt.Sprintf("let (%s, %s) ← %s", nr, pv, callS))
		*pre = append(*pre, t.assignPath(sel.X, nr, nil)...)
		*pre = append(*pre, t.assignPath(x.Args[io[0]], pv, nil)...)
		return "()"
	}
	switch {
	case ptrRecv && hasRes:
		nr, rv := t.tmp("o"), t.tmp("r")
		*pre = append(*pre, fmt.Sprintf("let (%s, %s) ← %s", nr, rv, callS))
		*pre = append(*pre, t.assignPath(sel.X, nr, nil)...)
		return rv
	case ptrRecv:
		nr := t.tmp("o")
		*pre = append(*pre, fmt.Sprintf("let %s ← %s", nr, callS))
		*pre = append(*pre, t.assignPath(sel.X, nr, nil)...)
		return "()"
	default:
		rv := t.tmp("r")
		*pre = append(*pre, fmt.Sprintf("let %s ← %s", rv, callS))
		return rv
	}
}

func (t *itr) asInt(e ast.Expr, pre *[]string) string {
	v := t.expr(e, pre)
	if _, ok := isBV(t.typeOf(e)); ok {
		return fmt.Sprintf("(((%s).toNat : Nat) : Int)", v)
	}
	return v
}

// pathStep: one step of an lvalue path from a root variable
type pathStep struct {
	field string   // field name, or
	index ast.Expr // index expression
	contT types.Type
}

func (t *itr) lvalue(e ast.Expr) (root string, steps []pathStep, ok bool) {
	switch x := e.(type) {
	case *ast.Ident:
		if a, ok := t.alias[x.Name]; ok {
			return t.lvalue(a)
		}
		return x.Name, nil, true
	case *ast.StarExpr:
		return t.lvalue(x.X)
	case *ast.ParenExpr:
		return t.lvalue(x.X)
	case *ast.UnaryExpr:
		if x.Op == token.AND {
			return t.lvalue(x.X)
		}
	case *ast.CallExpr:
		if a, ok := t.resolveAlias(x); ok {
			return t.lvalue(a)
		}
	case *ast.SelectorExpr:
		r, s, ok := t.lvalue(x.X)
		return r, append(s, pathStep{field: x.Sel.Name}), ok
	case *ast.IndexExpr:
		r, s, ok := t.lvalue(x.X)
		return r, append(s, pathStep{index: x.Index, contT: t.typeOf(x.X)}), ok
	}
	return "", nil, false
}

// evalIndices evaluates the index operands of an lvalue (phase 1 of an assignment)
func (t *itr) evalIndices(e ast.Expr, pre *[]string) []string {
	_, steps, ok := t.lvalue(e)
	if !ok {
		return nil
	}
	res := []string{}
	for _, s := range steps {
		if s.index != nil {
			n := t.tmp("i")
			if isMapT(s.contT) {
				*pre = append(*pre, fmt.Sprintf("let %s := %s", n, t.expr(s.index, pre)))
			} else {
				*pre = append(*pre, fmt.Sprintf("let %s := %s", n, t.natOf(s.index, pre)))
			}
			res = append(res, n)
		}
	}
	return res
}

// assignPath produces the statements that store val at the lvalue e. idx are the
// pre-evaluated index operands (nil: evaluate now).
func (t *itr) assignPath(e ast.Expr, val string, idx []string) []string {
	root, steps, ok := t.lvalue(e)
	if !ok {
		return []string{t.fail("unsupported assignment target %s", types.ExprString(e))}
	}
	lines := []string{}
	if idx == nil {
		idx = t.evalIndices(e, &lines)
	}
	// walk down, binding the containers
	cur := root
	conts := []string{root}
	k := 0
	for i, s := range steps {
		if i == len(steps)-1 {
			break
		}
		if s.field != "" {
			cur = "(" + cur + ")." + s.field
		} else {
			v := t.tmp("c")
			lines = append(lines, fmt.Sprintf("let %s ← %s %s %s", v, t.getFn(s.contT), cur, idx[k]))
			k++
			cur = v
		}
		conts = append(conts, cur)
	}
	// walk up
	k = len(idx) - 1
	newV := val
	for i := len(steps) - 1; i >= 0; i-- {
		s := steps[i]
		cont := conts[i]
		if s.field != "" {
			newV = fmt.Sprintf("{ %s with %s := %s }", cont, s.field, newV)
		} else {
			v := t.tmp("u")
			lines = append(lines, fmt.Sprintf("let %s ← %s %s %s %s", v, t.setFn(s.contT), cont, idx[k], paren(newV)))
			k--
			newV = v
		}
	}
	lines = append(lines, fmt.Sprintf("let %s := %s", root, newV))
	return lines
}

func paren(s string) string {
	if strings.HasPrefix(s, "(") || !strings.ContainsAny(s, " ") {
		return s
	}
	return "(" + s + ")"
}

func terminal(list []ast.Stmt) bool {
	if len(list) == 0 {
		return false
	}
	switch x := list[len(list)-1].(type) {
	case *ast.ReturnStmt:
		return true
	case *ast.ExprStmt:
		if c, ok := x.X.(*ast.CallExpr); ok {
			if id, ok := c.Fun.(*ast.Ident); ok && id.Name == "panic" {
				return true
			}
		}
	case *ast.IfStmt:
		if x.Else == nil {
			return false
		}
		if b, ok := x.Else.(*ast.BlockStmt); ok {
			return terminal(x.Body.List) && terminal(b.List)
		}
	}
	return false
}

// joinable: no branch of the if statement returns, panics, continues or declares an alias
func (t *itr) joinable(x *ast.IfStmt) bool {
	if x.Init != nil {
		return false
	}
	ok := true
	ast.Inspect(x, func(n ast.Node) bool {
		switch s := n.(type) {
		case *ast.ReturnStmt:
			ok = false
		case *ast.BranchStmt:
			if !t.inLoopOf(x, s) {
				ok = false
			}
		case *ast.CallExpr:
			if id, isId := s.Fun.(*ast.Ident); isId && id.Name == "panic" && x.Else == nil {
				ok = false // `if c { panic }` stays a guard in front of the rest; with an else branch a panic just ends the branch
			}
		case *ast.AssignStmt:
			if s.Tok == token.DEFINE && len(s.Rhs) == 1 {
				if u, isU := s.Rhs[0].(*ast.UnaryExpr); isU && u.Op == token.AND {
					ok = false
				}
			}
		}
		return true
	})
	return ok
}

// inLoopOf: is the branch statement inside a loop that is itself inside the if statement?
func (t *itr) inLoopOf(x *ast.IfStmt, b *ast.BranchStmt) bool {
	found := false
	ast.Inspect(x, func(n ast.Node) bool {
		var body *ast.BlockStmt
		if rs, ok := n.(*ast.RangeStmt); ok {
			body = rs.Body
		}
		if fs, ok := n.(*ast.ForStmt); ok {
			body = fs.Body
		}
		if body != nil {
			ast.Inspect(body, func(m ast.Node) bool {
				if m == ast.Node(b) {
					found = true
				}
				return true
			})
		}
		return true
	})
	return found
}

// assignedOuter: plain variables the if statement assigns that were declared before it
func (t *itr) assignedOuter(x *ast.IfStmt) []string {
	declared := map[string]bool{}
	res := []string{}
	ast.Inspect(x, func(n ast.Node) bool {
		switch s := n.(type) {
		case *ast.AssignStmt:
			for _, l := range s.Lhs {
				if id, ok := l.(*ast.Ident); ok && id.Name != "_" {
					if s.Tok == token.DEFINE {
						declared[id.Name] = true
					} else if !declared[id.Name] && id.Name != t.recv {
						dup := false
						for _, o := range res {
							dup = dup || o == id.Name
						}
						if !dup {
							res = append(res, id.Name)
						}
					}
				}
			}
		case *ast.DeclStmt:
			if gd, ok := s.Decl.(*ast.GenDecl); ok {
				for _, sp := range gd.Specs {
					if vs, ok := sp.(*ast.ValueSpec); ok {
						for _, n := range vs.Names {
							declared[n.Name] = true
						}
					}
				}
			}
		}
		return true
	})
	// variables a loop inside the if statement threads (assigned there, possibly through a method)
	ast.Inspect(x, func(n ast.Node) bool {
		if es, ok := n.(*ast.ExprStmt); ok {
			if ce, ok := es.X.(*ast.CallExpr); ok {
				if sel, ok := ce.Fun.(*ast.SelectorExpr); ok && (sel.Sel.Name == "Set" || sel.Sel.Name == "Reset") {
					if id, ok := sel.X.(*ast.Ident); ok && !declared[id.Name] && id.Name != t.recv {
						if nm, ok := t.typeOf(id).(*types.Named); ok && nm.Obj().Name() == "Mask" {
							dup := false
							for _, o := range res {
								dup = dup || o == id.Name
							}
							if !dup {
								res = append(res, id.Name)
							}
						}
					}
				}
			}
		}
		return true
	})
	// ... and locals changed by an element / field write or through a pointer-receiver method (`event.Added = …`)
	blk := &ast.BlockStmt{List: []ast.Stmt{x}}
	for _, n := range t.extraAssigned(blk, res...) {
		if !declared[n] {
			res = append(res, n)
		}
	}
	return res
}

// writesThrough: does the body assign through one of these (pointer) parameters?
// extraAssigned: local variables declared outside a loop body that the body changes other than by a plain
// assignment — an element or field write (`lengths[i] = v`), or a pointer-receiver method of a translated struct
// (`batches.Add(…)`): they join the loop state like assigned ones
func (t *itr) extraAssigned(body *ast.BlockStmt, skip ...string) []string {
	declared := map[string]bool{}
	for _, s := range skip {
		declared[s] = true
	}
	ast.Inspect(body, func(n ast.Node) bool {
		switch s := n.(type) {
		case *ast.AssignStmt:
			if s.Tok == token.DEFINE {
				for _, l := range s.Lhs {
					if id, ok := l.(*ast.Ident); ok {
						declared[id.Name] = true
					}
				}
			}
		case *ast.RangeStmt:
			if id, ok := s.Key.(*ast.Ident); ok {
				declared[id.Name] = true
			}
			if id, ok := s.Value.(*ast.Ident); ok {
				declared[id.Name] = true
			}
		case *ast.DeclStmt:
			if gd, ok := s.Decl.(*ast.GenDecl); ok {
				for _, sp := range gd.Specs {
					if vs, ok := sp.(*ast.ValueSpec); ok {
						for _, n := range vs.Names {
							declared[n.Name] = true
						}
					}
				}
			}
		}
		return true
	})
	res := []string{}
	add := func(name string) {
		if name == "" || name == "_" || name == t.recv || declared[name] || t.alias[name] != nil {
			return
		}
		for _, o := range append(append(append([]string{}, res...), t.retExtra...), t.loopExtra...) {
			if o == name {
				return
			}
		}
		res = append(res, name)
	}
	rootOf := func(e ast.Expr) string {
		for {
			switch x := e.(type) {
			case *ast.SelectorExpr:
				e = x.X
			case *ast.IndexExpr:
				e = x.X
			case *ast.StarExpr:
				e = x.X
			case *ast.ParenExpr:
				e = x.X
			case *ast.Ident:
				return x.Name
			default:
				return ""
			}
		}
	}
	ast.Inspect(body, func(n ast.Node) bool {
		switch s := n.(type) {
		case *ast.AssignStmt:
			if s.Tok != token.DEFINE {
				for _, l := range s.Lhs {
					if _, isId := l.(*ast.Ident); !isId {
						add(rootOf(l))
					}
				}
			}
		case *ast.IncDecStmt:
			if _, isId := s.X.(*ast.Ident); !isId {
				add(rootOf(s.X))
			}
		case *ast.ExprStmt:
			if ce, ok := s.X.(*ast.CallExpr); ok {
				if sel, ok := ce.Fun.(*ast.SelectorExpr); ok {
					if id, ok := sel.X.(*ast.Ident); ok {
						tp := t.typeOf(id)
						if p, ok := tp.(*types.Pointer); ok {
							tp = p.Elem()
						}
						if nt, ok := tp.(*types.Named); ok && t.structs[nt.Obj().Name()] {
							if fd, ok := t.p.funcs[nt.Obj().Name()+"."+sel.Sel.Name]; ok && fd.Recv != nil {
								if _, isPtr := fd.Recv.List[0].Type.(*ast.StarExpr); isPtr {
									add(id.Name)
								}
							}
						}
					}
				}
			}
		}
		return true
	})
	return res
}

func (t *itr) writesThrough(fd *ast.FuncDecl, names []*ast.Ident) bool {
	set := map[string]bool{}
	for _, n := range names {
		set[n.Name] = true
	}
	found := false
	ast.Inspect(fd.Body, func(n ast.Node) bool {
		check := func(e ast.Expr) {
			for {
				switch x := e.(type) {
				case *ast.SelectorExpr:
					e = x.X
					continue
				case *ast.IndexExpr:
					e = x.X
					continue
				case *ast.StarExpr:
					e = x.X
					continue
				case *ast.Ident:
					if set[x.Name] {
						found = true
					}
				}
				return
			}
		}
		switch s := n.(type) {
		case *ast.AssignStmt:
			for _, l := range s.Lhs {
				if _, isId := l.(*ast.Ident); !isId {
					check(l)
				}
			}
		case *ast.IncDecStmt:
			check(s.X)
		case *ast.CallExpr:
			if sel, ok := s.Fun.(*ast.SelectorExpr); ok {
				if id, ok := sel.X.(*ast.Ident); ok && set[id.Name] {
					tp := t.typeOf(id)
					if p, ok := tp.(*types.Pointer); ok {
						tp = p.Elem()
					}
					if nt, ok := tp.(*types.Named); ok && t.structs[nt.Obj().Name()] {
						if md, ok := t.p.funcs[nt.Obj().Name()+"."+sel.Sel.Name]; ok && md.Recv != nil {
							if _, isPtr := md.Recv.List[0].Type.(*ast.StarExpr); isPtr && t.methodWrites(md) {
								found = true
							}
						}
					}
				}
			}
		}
		return true
	})
	return found
}

// methodWrites: does a pointer-receiver method assign through its receiver?
func (t *itr) methodWrites(md *ast.FuncDecl) bool {
	if md.Recv == nil || len(md.Recv.List[0].Names) == 0 {
		return false
	}
	return t.writesThrough(md, md.Recv.List[0].Names)
}

// stateTuple: the variables a loop body threads through (receiver and in-out parameters)
func (t *itr) stateTuple() string {
	vs := []string{}
	if t.recv != "" {
		vs = append(vs, t.recv)
	}
	vs = append(vs, t.retExtra...)
	vs = append(vs, t.loopExtra...)
	if len(vs) == 1 {
		return vs[0]
	}
	return "(" + strings.Join(vs, ", ") + ")"
}

func (t *itr) ret(val string) string {
	if t.earlyItems != "" && val != "" {
		// a `return v` inside a loop that may leave the function: the value is recorded in the loop state
		return "pure (" + t.earlyItems + ", some " + paren(val) + ")"
	}
	if t.loopVar != "" {
		return "pure " + t.loopVar
	}
	if len(t.retExtra) > 0 {
		vs := []string{}
		if t.recv != "" {
			vs = append(vs, t.recv)
		}
		vs = append(vs, t.retExtra...)
		if val != "" {
			vs = append(vs, val)
		}
		return "pure (" + strings.Join(vs, ", ") + ")"
	}
	switch {
	case t.recv != "" && val != "":
		return fmt.Sprintf("pure (%s, %s)", t.recv, val)
	case t.recv != "":
		return "pure " + t.recv
	case val != "":
		return "pure " + paren(val)
	}
	return "pure ()"
}

// stmts translates a statement list into the lines of a `do` block.
func (t *itr) stmts(list []ast.Stmt, ind string) []string {
	if len(list) == 0 {
		return []string{ind + t.ret("")}
	}
	s, rest := list[0], list[1:]
	out := []string{}
	emit := func(lines []string) {
		for _, l := range lines {
			out = append(out, ind+l)
		}
	}
	switch x := s.(type) {
	case *ast.ReturnStmt:
		pre := []string{}
		val := ""
		if t.curSelfRet {
			return append(out, ind+t.ret(""))
		}
		if len(x.Results) == 1 {
			opt := len(t.curResT) == 1 && strings.HasPrefix(t.curResT[0], "Option")
			if id, ok := x.Results[0].(*ast.Ident); ok && id.Name == "nil" && opt {
				val = "none"
			} else if u, ok := x.Results[0].(*ast.UnaryExpr); ok && u.Op == token.AND && opt {
				val = "(some " + t.expr(u.X, &pre) + ")"
			} else {
				val = t.expr(x.Results[0], &pre)
			}
		} else if len(x.Results) > 1 {
			vs := []string{}
			for i, r := range x.Results {
				opt := i < len(t.curResT) && strings.HasPrefix(t.curResT[i], "Option")
				if id, ok := r.(*ast.Ident); ok && id.Name == "nil" && opt {
					vs = append(vs, "none")
				} else if u, ok := r.(*ast.UnaryExpr); ok && u.Op == token.AND && opt {
					vs = append(vs, "(some "+t.expr(u.X, &pre)+")")
				} else {
					vs = append(vs, t.expr(r, &pre))
				}
			}
			val = "(" + strings.Join(vs, ", ") + ")"
		}
		emit(pre)
		return append(out, ind+t.ret(val))
	case *ast.ExprStmt:
		call, ok := x.X.(*ast.CallExpr)
		if !ok {
			return append(out, ind+t.fail("unsupported expression statement"))
		}
		if id, ok := call.Fun.(*ast.Ident); ok {
			switch id.Name {
			case "panic":
				return append(out, ind+"none")
			case "delete":
				pre := []string{}
				mv := t.expr(call.Args[0], &pre)
				kv := t.expr(call.Args[1], &pre)
				pre = append(pre, t.assignPath(call.Args[0], fmt.Sprintf("GoMap.delete %s %s", mv, kv), nil)...)
				emit(pre)
				return append(out, t.stmts(rest, ind)...)
			case "copy":
				pre := []string{}
				src := t.expr(call.Args[1], &pre)
				dst := t.expr(call.Args[0], &pre)
				pre = append(pre, t.assignPath(call.Args[0], fmt.Sprintf("GoSlice.copy %s %s", dst, src), nil)...)
				emit(pre)
				return append(out, t.stmts(rest, ind)...)
			}
		}
		pre := []string{}
		t.call(call, &pre, false)
		emit(pre)
		return append(out, t.stmts(rest, ind)...)
	case *ast.IncDecStmt:
		pre := []string{}
		idx := t.evalIndices(x.X, &pre)
		// re-read through the same indices
		cur := t.readPath(x.X, idx, &pre)
		op := "+"
		if x.Tok == token.DEC {
			op = "-"
		}
		one := "1"
		if w, ok := isBV(t.typeOf(x.X)); ok {
			one = fmt.Sprintf("1#%d", w)
		}
		pre = append(pre, t.assignPath(x.X, fmt.Sprintf("(%s %s %s)", cur, op, one), idx)...)
		emit(pre)
		return append(out, t.stmts(rest, ind)...)
	case *ast.AssignStmt:
		pre := []string{}
		compound := map[token.Token]string{token.ADD_ASSIGN: "+", token.SUB_ASSIGN: "-", token.OR_ASSIGN: "|||", token.AND_ASSIGN: "&&&", token.XOR_ASSIGN: "^^^"}
		if op, isC := compound[x.Tok]; isC && len(x.Lhs) == 1 && len(x.Rhs) == 1 {
			// x op= e: the operand x is evaluated once
			if _, ok := isBV(t.typeOf(x.Lhs[0])); !ok && (op != "+" && op != "-" || !isInt(t.typeOf(x.Lhs[0]))) {
				return append(out, ind+t.fail("unsupported compound assignment on %s", t.typeOf(x.Lhs[0])))
			}
			idx := t.evalIndices(x.Lhs[0], &pre)
			cur := t.readPath(x.Lhs[0], idx, &pre)
			rhs := t.expr(x.Rhs[0], &pre)
			pre = append(pre, t.assignPath(x.Lhs[0], fmt.Sprintf("(%s %s %s)", cur, op, rhs), idx)...)
			emit(pre)
			return append(out, t.stmts(rest, ind)...)
		}
		if x.Tok != token.DEFINE && x.Tok != token.ASSIGN {
			return append(out, ind+t.fail("unsupported assignment operator %s", x.Tok))
		}
		if len(x.Lhs) == 2 && len(x.Rhs) == 1 && x.Tok == token.DEFINE {
			if ta, ok := x.Rhs[0].(*ast.TypeAssertExpr); ok {
				tn := strings.TrimPrefix(types.ExprString(ta.Type), "*")
				if ext, ok := t.assertExt[tn]; ok {
					// v, ok := x.(*T) for a translated struct T
					f := t.tmp("f")
					pre = append(pre, fmt.Sprintf("let %s := %s %s", f, ext, t.expr(ta.X, &pre)))
					if id, ok := x.Lhs[0].(*ast.Ident); ok && id.Name != "_" {
						pre = append(pre, fmt.Sprintf("let %s := (%s).getD default", id.Name, f))
					}
					if id, ok := x.Lhs[1].(*ast.Ident); ok && id.Name != "_" {
						pre = append(pre, fmt.Sprintf("let %s := (%s).isSome", id.Name, f))
					}
					emit(pre)
					return append(out, t.stmts(rest, ind)...)
				}
			}
		}
		if len(x.Lhs) == 1 && len(x.Rhs) == 1 && x.Tok == token.DEFINE {
			if ta, ok := x.Rhs[0].(*ast.TypeAssertExpr); ok {
				tn := strings.TrimPrefix(types.ExprString(ta.Type), "*")
				if ext, ok := t.assertExt[tn]; ok {
					// v := x.(*T) for a translated struct T: the value behind the interface (a failed assertion panics)
					if id, ok := x.Lhs[0].(*ast.Ident); ok {
						pre = append(pre, fmt.Sprintf("let %s ← %s %s", id.Name, ext, t.expr(ta.X, &pre)))
						emit(pre)
						return append(out, t.stmts(rest, ind)...)
					}
				}
			}
		}
		if len(x.Lhs) == 1 && len(x.Rhs) == 1 && x.Tok == token.ASSIGN && t.inject != nil {
			if _, isIface := t.typeOf(x.Lhs[0]).Underlying().(*types.Interface); isIface {
				if v, ok := t.injected(x.Rhs[0], &pre); ok {
					pre = append(pre, t.assignPath(x.Lhs[0], v, nil)...)
					emit(pre)
					return append(out, t.stmts(rest, ind)...)
				}
			}
		}
		if len(x.Lhs) == 1 && len(x.Rhs) == 1 && x.Tok == token.ASSIGN {
			if u, ok := x.Rhs[0].(*ast.UnaryExpr); ok && u.Op == token.AND && strings.HasPrefix(t.leanType(t.typeOf(x.Lhs[0])), "Option (") {
				// p = &v for an optional value
				v := t.expr(u.X, &pre)
				pre = append(pre, t.assignPath(x.Lhs[0], "(some "+v+")", nil)...)
				emit(pre)
				return append(out, t.stmts(rest, ind)...)
			}
		}
		if len(x.Lhs) == 1 && len(x.Rhs) == 1 && x.Tok == token.DEFINE {
			if u, ok := x.Rhs[0].(*ast.UnaryExpr); ok && u.Op == token.AND {
				if id, ok := x.Lhs[0].(*ast.Ident); ok {
					if _, _, isLv := t.lvalue(u.X); isLv {
						// e := &<lvalue>: from here on e stands for the lvalue
						if t.alias == nil {
							t.alias = map[string]ast.Expr{}
						}
						t.alias[id.Name] = u.X
						return append(out, t.stmts(rest, ind)...)
					}
				}
			}
		}
		if len(x.Lhs) == 2 && len(x.Rhs) == 1 {
			if ta, ok := x.Rhs[0].(*ast.TypeAssertExpr); ok && x.Tok == token.DEFINE && strings.TrimPrefix(types.ExprString(ta.Type), "*") == "RelationFilter" {
				// rf, ok := f.(*RelationFilter): the target of a relation filter, if f is one
				v := t.tmp("f")
				pre = append(pre, fmt.Sprintf("let %s := relationTargetF %s", v, t.expr(ta.X, &pre)))
				if id, ok := x.Lhs[0].(*ast.Ident); ok && id.Name != "_" {
					if t.relVar == nil {
						t.relVar = map[string]string{}
					}
					t.relVar[id.Name] = v
				}
				if id, ok := x.Lhs[1].(*ast.Ident); ok && id.Name != "_" {
					pre = append(pre, fmt.Sprintf("let %s := (%s).isSome", id.Name, v))
				}
				emit(pre)
				return append(out, t.stmts(rest, ind)...)
			}
			if ce, ok := x.Rhs[0].(*ast.CallExpr); ok && x.Tok == token.DEFINE {
				if sel, ok := ce.Fun.(*ast.SelectorExpr); ok {
					if tn, ok := t.tokenOf(t.typeOf(sel.X)); ok {
						if _, isPair := t.tokExt[tn+"."+sel.Sel.Name]; isPair && !t.usesEffExt(tn+"."+sel.Sel.Name) {
							v := t.call(ce, &pre, true)
							a, b := "_", "_"
							if id, ok := x.Lhs[0].(*ast.Ident); ok {
								a = id.Name
							}
							if id, ok := x.Lhs[1].(*ast.Ident); ok {
								b = id.Name
							}
							pre = append(pre, fmt.Sprintf("let (%s, %s) := %s", a, b, v))
							emit(pre)
							return append(out, t.stmts(rest, ind)...)
						}
					}
				}
			}
			if ix, ok := x.Rhs[0].(*ast.IndexExpr); ok && isMapT(t.typeOf(ix.X)) && x.Tok == token.DEFINE {
				if sel, ok := ix.X.(*ast.SelectorExpr); ok {
					if tn, ok := t.tokenOf(t.typeOf(sel.X)); ok {
						// a map field of an object outside the module: an uninterpreted lookup
						ext, ok := t.tokExt[tn+"."+sel.Sel.Name]
						if !ok {
							return append(out, ind+t.fail("map member %s.%s", tn, sel.Sel.Name))
						}
						f := t.tmp("f")
						rcv := t.expr(sel.X, &pre)
						t.derefCheck(t.typeOf(sel.X), rcv, &pre)
						pre = append(pre, fmt.Sprintf("let %s := %s", f, t.tokCall(ext, []string{rcv, t.expr(ix.Index, &pre)})))
						if id, ok := x.Lhs[0].(*ast.Ident); ok && id.Name != "_" {
							pre = append(pre, fmt.Sprintf("let %s := (%s).getD default", id.Name, f))
						}
						if id, ok := x.Lhs[1].(*ast.Ident); ok && id.Name != "_" {
							pre = append(pre, fmt.Sprintf("let %s := (%s).isSome", id.Name, f))
						}
						emit(pre)
						return append(out, t.stmts(rest, ind)...)
					}
				}
				// v, ok := m[k]
				mv := t.expr(ix.X, &pre)
				kv := t.expr(ix.Index, &pre)
				f := t.tmp("f")
				pre = append(pre, fmt.Sprintf("let %s := GoMap.find %s %s", f, mv, kv))
				if id, ok := x.Lhs[0].(*ast.Ident); ok && id.Name != "_" {
					pre = append(pre, fmt.Sprintf("let %s := (%s).getD default", id.Name, f))
				}
				if id, ok := x.Lhs[1].(*ast.Ident); ok && id.Name != "_" {
					pre = append(pre, fmt.Sprintf("let %s := (%s).isSome", id.Name, f))
				}
				emit(pre)
				return append(out, t.stmts(rest, ind)...)
			}
			if ta, ok := x.Rhs[0].(*ast.TypeAssertExpr); ok && x.Tok == token.DEFINE {
				// v, ok := x.(*T): only the flag is translated, as an uninterpreted predicate on the value
				tn := types.ExprString(ta.Type)
				tn = strings.TrimPrefix(tn, "*")
				if i := strings.LastIndex(tn, "."); i >= 0 {
					tn = tn[i+1:]
				}
				if id, isId := x.Lhs[0].(*ast.Ident); isId && id.Name != "_" && tn == "CachedFilter" {
					// cached, ok := f.(*CachedFilter): the registered filter behind the value, if it is one
					v := t.tmp("f")
					pre = append(pre, fmt.Sprintf("let %s := asCachedFilterF %s", v, t.expr(ta.X, &pre)))
					pre = append(pre, fmt.Sprintf("let %s := (%s).getD default", id.Name, v))
					if id2, ok := x.Lhs[1].(*ast.Ident); ok && id2.Name != "_" {
						pre = append(pre, fmt.Sprintf("let %s := (%s).isSome", id2.Name, v))
					}
					emit(pre)
					return append(out, t.stmts(rest, ind)...)
				}
				if id, isId := x.Lhs[0].(*ast.Ident); !isId || id.Name != "_" {
					return append(out, ind+t.fail("the value of a type assertion is not supported"))
				}
				pred := "is" + tn + "F"
				if _, known := t.extOwner[pred]; !known {
					return append(out, ind+t.fail("type assertion to %s", tn))
				}
				if id, ok := x.Lhs[1].(*ast.Ident); ok && id.Name != "_" {
					pre = append(pre, fmt.Sprintf("let %s := %s %s", id.Name, pred, t.expr(ta.X, &pre)))
				}
				emit(pre)
				return append(out, t.stmts(rest, ind)...)
			}
			if call, ok := x.Rhs[0].(*ast.CallExpr); ok {
				// a, b := f(...)
				rv := t.call(call, &pre, true)
				for i, l := range x.Lhs {
					id, isId := l.(*ast.Ident)
					if !isId {
						return append(out, ind+t.fail("unsupported assignment shape"))
					}
					if id.Name == "_" {
						continue
					}
					pre = append(pre, fmt.Sprintf("let %s := (%s).%d", id.Name, rv, i+1))
				}
				emit(pre)
				return append(out, t.stmts(rest, ind)...)
			}
		}
		if len(x.Lhs) > 2 && len(x.Rhs) == 1 {
			if call, ok := x.Rhs[0].(*ast.CallExpr); ok {
				// a, b, c, ... := f(...)
				rv := t.call(call, &pre, true)
				n := len(x.Lhs)
				for i, l := range x.Lhs {
					id, isId := l.(*ast.Ident)
					if !isId {
						return append(out, ind+t.fail("unsupported assignment shape"))
					}
					if id.Name == "_" {
						continue
					}
					proj := strings.Repeat(".2", i)
					if i < n-1 {
						proj += ".1"
					}
					pre = append(pre, fmt.Sprintf("let %s := (%s)%s", id.Name, rv, proj))
				}
				emit(pre)
				return append(out, t.stmts(rest, ind)...)
			}
		}
		if len(x.Lhs) != len(x.Rhs) {
			return append(out, ind+t.fail("unsupported assignment shape"))
		}
		// phase 1: index operands on the left, then the right-hand sides
		idxs := make([][]string, len(x.Lhs))
		for i, l := range x.Lhs {
			if _, isId := l.(*ast.Ident); !isId {
				idxs[i] = t.evalIndices(l, &pre)
				if idxs[i] == nil {
					idxs[i] = []string{}
				}
			}
		}
		vals := make([]string, len(x.Rhs))
		for i, r := range x.Rhs {
			v := ""
			if id, ok := r.(*ast.Ident); ok && id.Name == "nil" && (isSliceT(t.typeOf(x.Lhs[i])) || isMapT(t.typeOf(x.Lhs[i]))) {
				v = "(default : " + t.leanType(t.typeOf(x.Lhs[i])) + ")" // the nil slice
			} else if ok && id.Name == "nil" {
				v = "(none : " + t.leanType(t.typeOf(x.Lhs[i])) + ")"
			} else {
				v = t.expr(r, &pre)
			}
			if len(x.Rhs) > 1 {
				n := t.tmp("v")
				pre = append(pre, fmt.Sprintf("let %s := %s", n, v))
				v = n
			}
			vals[i] = v
		}
		// phase 2
		for i, l := range x.Lhs {
			if id, isId := l.(*ast.Ident); isId {
				if id.Name == "_" {
					continue
				}
				pre = append(pre, fmt.Sprintf("let %s := %s", id.Name, vals[i]))
			} else {
				pre = append(pre, t.assignPath(l, vals[i], idxs[i])...)
			}
		}
		emit(pre)
		return append(out, t.stmts(rest, ind)...)
	case *ast.DeclStmt:
		gd, ok := x.Decl.(*ast.GenDecl)
		if !ok || gd.Tok != token.VAR {
			return append(out, ind+t.fail("unsupported declaration"))
		}
		for _, sp := range gd.Specs {
			vs := sp.(*ast.ValueSpec)
			for i, n := range vs.Names {
				if len(vs.Values) > i {
					pre := []string{}
					v := t.expr(vs.Values[i], &pre)
					emit(pre)
					out = append(out, fmt.Sprintf("%slet %s := %s", ind, n.Name, v))
				} else {
					out = append(out, fmt.Sprintf("%slet %s : %s := default", ind, n.Name, t.leanType(t.typeOf(vs.Type))))
				}
			}
		}
		return append(out, t.stmts(rest, ind)...)
	case *ast.ForStmt:
		if lines, ok := t.searchLoop(x, rest, ind); ok {
			return append(out, lines...)
		}
		if lines, ok := t.countLoop(x, rest, ind); ok {
			return append(out, lines...)
		}
		if lines, ok := t.incLoop(x, rest, ind); ok {
			return append(out, lines...)
		}
		return append(out, ind+t.fail("unsupported for loop"))
	case *ast.BranchStmt:
		if x.Tok == token.CONTINUE && t.loopVar != "" {
			return append(out, ind+"pure "+t.loopVar)
		}
		if x.Tok == token.BREAK && t.loopVar != "" && t.brkVar != "" {
			out = append(out, fmt.Sprintf("%slet %s := true", ind, t.brkVar))
			return append(out, ind+"pure "+t.loopVar)
		}
		return append(out, ind+t.fail("unsupported branch statement %s", x.Tok))
	case *ast.RangeStmt:
		// for i := range s { s[i] = c }   (every element set to one value)
		if key, ok := x.Key.(*ast.Ident); ok && x.Value == nil && len(x.Body.List) == 1 {
			if as, ok := x.Body.List[0].(*ast.AssignStmt); ok && as.Tok == token.ASSIGN && len(as.Lhs) == 1 {
				if ix, ok := as.Lhs[0].(*ast.IndexExpr); ok {
					if ki, ok := ix.Index.(*ast.Ident); ok && ki.Name == key.Name && types.ExprString(ix.X) == types.ExprString(x.X) {
						pre := []string{}
						val := t.expr(as.Rhs[0], &pre)
						if len(pre) == 0 && !strings.Contains(val, key.Name) {
							fill := "GoArr.fill"
							if isSliceT(t.typeOf(x.X)) {
								fill = "GoSlice.fill"
							}
							cur := t.expr(x.X, &pre)
							pre = append(pre, t.assignPath(x.X, fmt.Sprintf("%s %s %s", fill, cur, paren(val)), nil)...)
							emit(pre)
							return append(out, t.stmts(rest, ind)...)
						}
					}
				}
			}
		}
		if lines, ok := t.rangeLoop(x, rest, ind); ok {
			return append(out, lines...)
		}
		return append(out, ind+t.fail("unsupported range loop"))
	case *ast.IfStmt:
		if t.reflectIf != "" && x.Else == nil && x.Init == nil {
			usesReflect := false
			var arg *ast.Ident
			ast.Inspect(x.Cond, func(n ast.Node) bool {
				if id, ok := n.(*ast.Ident); ok {
					if _, isPkg := t.p.info.Uses[id].(*types.PkgName); isPkg && id.Name == "reflect" {
						usesReflect = true
					}
					if arg == nil {
						if _, isIface := t.typeOf(id).Underlying().(*types.Interface); isIface {
							arg = id
						}
					}
				}
				return true
			})
			if usesReflect && arg != nil {
				// a test by reflection that sets one Boolean: an uninterpreted predicate of the inspected type
				var target *ast.Ident
				for _, s := range x.Body.List {
					if as, ok := s.(*ast.AssignStmt); ok && as.Tok == token.ASSIGN && len(as.Lhs) == 1 {
						if id, ok := as.Lhs[0].(*ast.Ident); ok {
							target = id
						}
					}
				}
				if target == nil {
					return append(out, ind+t.fail("reflective test without a Boolean result"))
				}
				out = append(out, fmt.Sprintf("%slet %s := (%s || %s %s)", ind, target.Name, target.Name, t.reflectIf, arg.Name))
				return append(out, t.stmts(rest, ind)...)
			}
		}
		if x.Init != nil {
			// the init statement's variables are fresh names here; translate it in front
			x2 := *x
			x2.Init = nil
			return append(out, t.stmts(append([]ast.Stmt{x.Init, &x2}, rest...), ind)...)
		}
		if t.joinIf[t.curFn] && t.joinable(x) {
			// neither branch leaves the function: the branches hand the variables they may change back, and the
			// statements after the `if` follow once (instead of once per branch)
			pre := []string{}
			cond := t.expr(x.Cond, &pre)
			emit(pre)
			vars := []string{}
			if t.recv != "" {
				vars = append(vars, t.recv)
			}
			vars = append(vars, t.retExtra...)
			for _, v := range t.loopExtra {
				dup := false
				for _, o := range vars {
					dup = dup || o == v
				}
				if !dup {
					vars = append(vars, v)
				}
			}
			for _, v := range t.assignedOuter(x) {
				dup := false
				for _, o := range vars {
					dup = dup || o == v
				}
				if !dup {
					vars = append(vars, v)
				}
			}
			tuple := strings.Join(vars, ", ")
			if len(vars) > 1 {
				tuple = "(" + tuple + ")"
			}
			savedLoopVar := t.loopVar
			t.loopVar = tuple
			out = append(out, fmt.Sprintf("%slet %s ← (do", ind, tuple))
			out = append(out, ind+"    if "+cond+" then")
			out = append(out, t.stmts(x.Body.List, ind+"      ")...)
			out = append(out, ind+"    else")
			switch e := x.Else.(type) {
			case nil:
				out = append(out, ind+"      pure "+tuple)
			case *ast.BlockStmt:
				out = append(out, t.stmts(e.List, ind+"      ")...)
			case *ast.IfStmt:
				out = append(out, t.stmts([]ast.Stmt{e}, ind+"      ")...)
			}
			out = append(out, ind+"  )")
			t.loopVar = savedLoopVar
			return append(out, t.stmts(rest, ind)...)
		}
		pre := []string{}
		cond := t.expr(x.Cond, &pre)
		emit(pre)
		thenL := x.Body.List
		if !terminal(thenL) {
			thenL = append(append([]ast.Stmt{}, thenL...), rest...)
		}
		var elseL []ast.Stmt
		switch e := x.Else.(type) {
		case nil:
			elseL = rest
		case *ast.BlockStmt:
			elseL = e.List
			if !terminal(elseL) {
				elseL = append(append([]ast.Stmt{}, elseL...), rest...)
			}
		case *ast.IfStmt:
			elseL = append([]ast.Stmt{e}, rest...)
		}
		out = append(out, ind+"if "+cond+" then")
		out = append(out, t.stmts(thenL, ind+"  ")...)
		out = append(out, ind+"else")
		out = append(out, t.stmts(elseL, ind+"  ")...)
		return out
	}
	return append(out, ind+t.fail("unsupported statement %T", s))
}

// rangeLoop: for i := range X { body } and for i, v := range X { body } over a slice, where the
// body only changes the receiver (through paths) and its own locals. The loop becomes a monadic
// fold over the indices 0..len(X)-1 (len evaluated once, as in Go); `continue` ends one step.
func (t *itr) rangeLoop(x *ast.RangeStmt, rest []ast.Stmt, ind string) ([]string, bool) {
	if (t.recv == "" && !t.freeLoops) || x.Tok != token.DEFINE || !isSliceT(t.typeOf(x.X)) {
		return nil, false
	}
	for _, e := range t.retExtra {
		_ = e
	}
	key, ok := x.Key.(*ast.Ident)
	if !ok {
		return nil, false
	}
	keyName := key.Name
	if keyName == "_" {
		keyName = t.tmp("k")
	}
	// variables declared outside the body that it assigns become part of the loop state
	outer := []string{}
	declared := map[string]bool{key.Name: true}
	if v, ok := x.Value.(*ast.Ident); ok {
		declared[v.Name] = true
	}
	bad := false
	hasRet := false
	hasBreak := false
	ast.Inspect(x.Body, func(n ast.Node) bool {
		switch s := n.(type) {
		case *ast.AssignStmt:
			for _, l := range s.Lhs {
				if id, ok := l.(*ast.Ident); ok {
					if s.Tok == token.DEFINE {
						declared[id.Name] = true
					} else if !declared[id.Name] && id.Name != "_" {
						seen := false
						for _, o := range outer {
							if o == id.Name {
								seen = true
							}
						}
						if !seen {
							outer = append(outer, id.Name)
						}
					}
				}
			}
		case *ast.ReturnStmt:
			if len(t.curResT) == 0 {
				bad = true
			}
			hasRet = true
		case *ast.BranchStmt:
			if s.Tok == token.BREAK {
				hasBreak = true
			} else if s.Tok != token.CONTINUE {
				bad = true
			}
		case *ast.ExprStmt:
			// v.Set(..) / v.Reset() on a Mask variable declared outside the loop assigns it
			if ce, ok := s.X.(*ast.CallExpr); ok {
				if sel, ok := ce.Fun.(*ast.SelectorExpr); ok && (sel.Sel.Name == "Set" || sel.Sel.Name == "Reset") {
					if id, ok := sel.X.(*ast.Ident); ok && !declared[id.Name] && id.Name != t.recv {
						if n, ok := t.typeOf(id).(*types.Named); ok && n.Obj().Name() == "Mask" {
							seen := false
							for _, o := range outer {
								seen = seen || o == id.Name
							}
							if !seen {
								outer = append(outer, id.Name)
							}
						}
					}
				}
			}
		case *ast.DeclStmt:
			if gd, ok := s.Decl.(*ast.GenDecl); ok {
				for _, sp := range gd.Specs {
					if vs, ok := sp.(*ast.ValueSpec); ok {
						for _, n := range vs.Names {
							declared[n.Name] = true
						}
					}
				}
			}
		case *ast.RangeStmt:
			bad = true
		}
		return true
	})
	if bad {
		return nil, false
	}
	outer = append(outer, t.extraAssigned(x.Body, outer...)...)
	{
		ded := []string{}
		for _, o := range outer {
			dup := false
			for _, e := range t.loopExtra {
				dup = dup || e == o
			}
			if !dup {
				ded = append(ded, o)
			}
		}
		outer = ded
	}
	brk := ""
	if hasBreak {
		brk = t.tmp("brk")
		outer = append(outer, brk)
	}
	savedExtra := t.loopExtra
	t.loopExtra = append(append([]string{}, savedExtra...), outer...)
	defer func() { t.loopExtra = savedExtra }()
	out := []string{}
	pre := []string{}
	xs := t.expr(x.X, &pre)
	if strings.Contains(xs, " ext ") || strings.Contains(xs, " ext)") {
		// a slice read from the hidden state: Go evaluates the range expression once
		v := t.tmp("xs")
		pre = append(pre, fmt.Sprintf("let %s := %s", v, xs))
		xs = v
		t.rangeOnce = v
	}
	if brk != "" {
		pre = append(pre, fmt.Sprintf("let %s := false", brk))
	}
	for _, l := range pre {
		out = append(out, ind+l)
	}
	n := t.tmp("n")
	iN := keyName + "N"
	out = append(out, fmt.Sprintf("%slet %s := (%s).size", ind, n, xs))
	st := t.stateTuple()
	ef := t.earlyFold(hasRet, st)
	out = append(out, fmt.Sprintf("%slet %s ← (List.range %s).foldlM (fun %s %s => do", ind, ef.bind, n, ef.pat, iN))
	bi := ind + "    "
	if hasRet {
		out = append(out, fmt.Sprintf("%sif %s.isSome then pure %s else", bi, ef.rv, ef.bind))
	}
	out = append(out, fmt.Sprintf("%slet %s : Int := ((%s : Nat) : Int)", bi, keyName, iN))
	bodyInd := bi
	if brk != "" {
		// after a `break` the remaining rounds do nothing
		out = append(out, fmt.Sprintf("%sif %s then pure %s else", bi, brk, ef.bind))
		bodyInd = bi + "  "
	}
	if v, ok := x.Value.(*ast.Ident); ok && v.Name != "_" {
		if t.rangeOnce != "" {
			out = append(out, fmt.Sprintf("%slet %s ← GoSlice.get %s %s", bodyInd, v.Name, t.rangeOnce, iN))
		} else {
			pre2 := []string{}
			xs2 := t.expr(x.X, &pre2)
			for _, l := range pre2 {
				out = append(out, bodyInd+l)
			}
			out = append(out, fmt.Sprintf("%slet %s ← GoSlice.get %s %s", bodyInd, v.Name, xs2, iN))
		}
	}
	t.rangeOnce = ""
	savedBrk := t.brkVar
	t.brkVar = brk
	bi = bodyInd
	savedLoopVar, savedEarly := t.loopVar, t.earlyItems
	t.loopVar = ef.cont
	if hasRet {
		t.earlyItems = ef.items
	}
	savedAlias := t.alias
	t.alias = map[string]ast.Expr{}
	for k, v := range savedAlias {
		t.alias[k] = v
	}
	out = append(out, t.stmts(x.Body.List, bi)...)
	t.alias = savedAlias
	t.loopVar, t.earlyItems = savedLoopVar, savedEarly
	t.brkVar = savedBrk
	out = append(out, fmt.Sprintf("%s  ) %s", ind, ef.init))
	if hasRet {
		out = append(out, fmt.Sprintf("%smatch %s with", ind, ef.rv))
		out = append(out, fmt.Sprintf("%s| some r => %s", ind, t.ret("r")))
		out = append(out, fmt.Sprintf("%s| none =>", ind))
		out = append(out, t.stmts(rest, ind+"  ")...)
		return out, true
	}
	out = append(out, t.stmts(rest, ind)...)
	return out, true
}

// countLoop: for j = 0; j < n; j++ { body } with j, n of type int32 (j declared before the loop and
// not used after it): a monadic fold over 0..n-1 (no iteration for n ≤ 0).
func (t *itr) countLoop(x *ast.ForStmt, rest []ast.Stmt, ind string) ([]string, bool) {
	init, ok1 := x.Init.(*ast.AssignStmt)
	cond, ok2 := x.Cond.(*ast.BinaryExpr)
	post, ok3 := x.Post.(*ast.IncDecStmt)
	if !ok1 || !ok2 || !ok3 || t.recv == "" {
		return nil, false
	}
	jv, ok := init.Lhs[0].(*ast.Ident)
	if !ok || len(init.Lhs) != 1 || init.Tok != token.ASSIGN {
		return nil, false
	}
	startExpr := ""
	if tv, ok := t.p.info.Types[init.Rhs[0]]; !ok || tv.Value == nil || constant.Sign(tv.Value) != 0 {
		// `for e = start; e < end; e++` over uint32: end - start rounds (none if end ≤ start), e = start + round
		if id, isId := init.Rhs[0].(*ast.Ident); isId && t.leanType(t.typeOf(id)) == "BitVec 32" {
			startExpr = id.Name
		} else {
			return nil, false
		}
	}
	cj, ok := cond.X.(*ast.Ident)
	pj, ok2b := post.X.(*ast.Ident)
	if !ok || !ok2b || cj.Name != jv.Name || pj.Name != jv.Name || cond.Op != token.LSS || post.Tok != token.INC {
		return nil, false
	}
	unsignedCtr := false
	if b, ok := t.typeOf(jv).Underlying().(*types.Basic); !ok || (b.Kind() != types.Int32 && b.Kind() != types.Uint32) {
		return nil, false
	} else if b.Kind() == types.Uint32 {
		unsignedCtr = true
	}
	// the counter must not be used after the loop (a later loop that starts by assigning it does not read it)
	used := false
	for _, r := range rest {
		ast.Inspect(r, func(n ast.Node) bool {
			if fs, ok := n.(*ast.ForStmt); ok {
				if as, ok := fs.Init.(*ast.AssignStmt); ok && len(as.Lhs) == 1 && as.Tok == token.ASSIGN {
					if id, ok := as.Lhs[0].(*ast.Ident); ok && id.Name == jv.Name {
						return false
					}
				}
			}
			if id, ok := n.(*ast.Ident); ok && id.Name == jv.Name {
				used = true
			}
			return true
		})
	}
	if used {
		return nil, false
	}
	// outer locals assigned in the body (other than the counter) join the loop state
	outer := []string{}
	declared := map[string]bool{jv.Name: true}
	bad := false
	hasRet := false
	ast.Inspect(x.Body, func(n ast.Node) bool {
		switch s := n.(type) {
		case *ast.AssignStmt:
			for _, l := range s.Lhs {
				if id, ok := l.(*ast.Ident); ok {
					if s.Tok == token.DEFINE {
						declared[id.Name] = true
					} else if !declared[id.Name] && id.Name != "_" {
						seen := false
						for _, o := range append(outer, t.loopExtra...) {
							if o == id.Name {
								seen = true
							}
						}
						if !seen {
							outer = append(outer, id.Name)
						}
					}
				}
			}
		case *ast.ReturnStmt:
			if len(t.curResT) == 0 {
				bad = true
			}
			hasRet = true
		case *ast.ForStmt, *ast.RangeStmt:
			if !t.joinIf[t.curFn] {
				bad = true // nested loops only in the functions translated last
			}
		case *ast.DeclStmt:
			if gd, ok := s.Decl.(*ast.GenDecl); ok {
				for _, sp := range gd.Specs {
					if vs, ok := sp.(*ast.ValueSpec); ok {
						for _, n := range vs.Names {
							declared[n.Name] = true
						}
					}
				}
			}
		case *ast.BranchStmt:
			if s.Tok != token.CONTINUE {
				bad = true
			}
		}
		return true
	})
	if bad {
		return nil, false
	}
	outer = append(outer, t.extraAssigned(x.Body, append([]string{jv.Name}, outer...)...)...)
	savedExtra := t.loopExtra
	t.loopExtra = append(append([]string{}, savedExtra...), outer...)
	defer func() { t.loopExtra = savedExtra }()
	out := []string{}
	pre := []string{}
	nv := t.expr(cond.Y, &pre)
	for _, l := range pre {
		out = append(out, ind+l)
	}
	st := t.stateTuple()
	ef := t.earlyFold(hasRet, st)
	jN := jv.Name + "N"
	bound := "toInt.toNat"
	if unsignedCtr {
		bound = "toNat"
	}
	if startExpr != "" {
		if !unsignedCtr {
			return nil, false
		}
		out = append(out, fmt.Sprintf("%slet %s ← (List.range ((%s).toNat - (%s).toNat)).foldlM (fun %s %s => do", ind, ef.bind, nv, startExpr, ef.pat, jN))
	} else {
		out = append(out, fmt.Sprintf("%slet %s ← (List.range ((%s).%s)).foldlM (fun %s %s => do", ind, ef.bind, nv, bound, ef.pat, jN))
	}
	bi := ind + "    "
	if hasRet {
		out = append(out, fmt.Sprintf("%sif %s.isSome then pure %s else", bi, ef.rv, ef.bind))
	}
	if startExpr != "" {
		out = append(out, fmt.Sprintf("%slet %s : BitVec 32 := %s + BitVec.ofNat 32 %s", bi, jv.Name, startExpr, jN))
	} else {
		out = append(out, fmt.Sprintf("%slet %s : BitVec 32 := BitVec.ofNat 32 %s", bi, jv.Name, jN))
	}
	savedLoopVar, savedEarly := t.loopVar, t.earlyItems
	t.loopVar = ef.cont
	if hasRet {
		t.earlyItems = ef.items
	}
	out = append(out, t.stmts(x.Body.List, bi)...)
	t.loopVar, t.earlyItems = savedLoopVar, savedEarly
	out = append(out, fmt.Sprintf("%s  ) %s", ind, ef.init))
	if hasRet {
		out = append(out, fmt.Sprintf("%smatch %s with", ind, ef.rv))
		out = append(out, fmt.Sprintf("%s| some r => %s", ind, t.ret("r")))
		out = append(out, fmt.Sprintf("%s| none =>", ind))
		out = append(out, t.stmts(rest, ind+"  ")...)
		return out, true
	}
	out = append(out, t.stmts(rest, ind)...)
	return out, true
}

// earlyFold: the shapes of a loop fold with (hasRet) or without a recorded early return
type earlyFoldT struct{ bind, pat, init, cont, items, rv string }

func (t *itr) earlyFold(hasRet bool, st string) earlyFoldT {
	if !hasRet {
		return earlyFoldT{bind: st, pat: st, init: st, cont: st}
	}
	items := strings.TrimSuffix(strings.TrimPrefix(st, "("), ")")
	rt := paren(strings.Join(t.curResT, " × "))
	rv := t.tmp("ret")
	holes := strings.Repeat("_ × ", strings.Count(items, ",")+1)
	return earlyFoldT{
		bind:  fmt.Sprintf("(%s, %s)", items, rv),
		pat:   fmt.Sprintf("((%s, %s) : %sOption %s)", items, rv, holes, rt),
		init:  fmt.Sprintf("(%s, none)", items),
		cont:  fmt.Sprintf("(%s, (none : Option %s))", items, rt),
		items: items, rv: rv,
	}
}

// retVals renders the operands of a return statement as one Lean value
func (t *itr) retVals(x *ast.ReturnStmt, pre *[]string) string {
	vs := []string{}
	for i, r := range x.Results {
		opt := i < len(t.curResT) && strings.HasPrefix(t.curResT[i], "Option")
		if id, ok := r.(*ast.Ident); ok && id.Name == "nil" && opt {
			vs = append(vs, "none")
		} else if u, ok := r.(*ast.UnaryExpr); ok && u.Op == token.AND && opt {
			vs = append(vs, "(some "+t.expr(u.X, pre)+")")
		} else {
			vs = append(vs, t.expr(r, pre))
		}
	}
	if len(vs) == 1 {
		return vs[0]
	}
	return "(" + strings.Join(vs, ", ") + ")"
}

// searchLoop: `for j = 0; j < n; j++ { v := e; ...; if c { return r } }` — a search that only reads: the loop
// becomes a fold whose state is the value found so far (nothing after the first hit is evaluated), followed by
// a case distinction: the early return, or the statements after the loop
func (t *itr) searchLoop(x *ast.ForStmt, rest []ast.Stmt, ind string) ([]string, bool) {
	init, ok1 := x.Init.(*ast.AssignStmt)
	cond, ok2 := x.Cond.(*ast.BinaryExpr)
	post, ok3 := x.Post.(*ast.IncDecStmt)
	if !ok1 || !ok2 || !ok3 || len(x.Body.List) == 0 || len(t.curResT) == 0 {
		return nil, false
	}
	jv, ok := init.Lhs[0].(*ast.Ident)
	if !ok || len(init.Lhs) != 1 {
		return nil, false
	}
	if tv, ok := t.p.info.Types[init.Rhs[0]]; !ok || tv.Value == nil || constant.Sign(tv.Value) != 0 {
		return nil, false
	}
	cj, ok := cond.X.(*ast.Ident)
	pj, ok2b := post.X.(*ast.Ident)
	if !ok || !ok2b || cj.Name != jv.Name || pj.Name != jv.Name || cond.Op != token.LSS || post.Tok != token.INC {
		return nil, false
	}
	unsignedCtr := false
	if b, ok := t.typeOf(jv).Underlying().(*types.Basic); !ok || (b.Kind() != types.Int32 && b.Kind() != types.Uint32) {
		return nil, false
	} else if b.Kind() == types.Uint32 {
		unsignedCtr = true
	}
	for _, r := range rest {
		used := false
		ast.Inspect(r, func(n ast.Node) bool {
			if id, ok := n.(*ast.Ident); ok && id.Name == jv.Name {
				used = true
			}
			return true
		})
		if used {
			return nil, false
		}
	}
	n := len(x.Body.List)
	last, ok := x.Body.List[n-1].(*ast.IfStmt)
	if !ok || last.Else != nil || last.Init != nil || len(last.Body.List) != 1 {
		return nil, false
	}
	retS, ok := last.Body.List[0].(*ast.ReturnStmt)
	if !ok {
		return nil, false
	}
	for _, s := range x.Body.List[:n-1] {
		as, ok := s.(*ast.AssignStmt)
		if !ok || as.Tok != token.DEFINE || len(as.Lhs) != 1 || len(as.Rhs) != 1 {
			return nil, false
		}
		if _, ok := as.Lhs[0].(*ast.Ident); !ok {
			return nil, false
		}
	}
	out := []string{}
	pre := []string{}
	nv := t.expr(cond.Y, &pre)
	for _, l := range pre {
		out = append(out, ind+l)
	}
	bound := "toInt.toNat"
	if unsignedCtr {
		bound = "toNat"
	}
	rt := paren(strings.Join(t.curResT, " × "))
	fv := t.tmp("found")
	jN := jv.Name + "N"
	out = append(out, fmt.Sprintf("%slet %s ← (List.range ((%s).%s)).foldlM (fun (%s : Option %s) %s => do", ind, fv, nv, bound, fv, rt, jN))
	bi := ind + "    "
	out = append(out, fmt.Sprintf("%sif %s.isSome then pure %s else", bi, fv, fv))
	out = append(out, fmt.Sprintf("%slet %s : BitVec 32 := BitVec.ofNat 32 %s", bi, jv.Name, jN))
	for _, s := range x.Body.List[:n-1] {
		as := s.(*ast.AssignStmt)
		bp := []string{}
		v := t.expr(as.Rhs[0], &bp)
		for _, l := range bp {
			out = append(out, bi+l)
		}
		out = append(out, fmt.Sprintf("%slet %s := %s", bi, as.Lhs[0].(*ast.Ident).Name, v))
	}
	bp := []string{}
	cv := t.expr(last.Cond, &bp)
	rv := t.retVals(retS, &bp)
	for _, l := range bp {
		out = append(out, bi+l)
	}
	out = append(out, fmt.Sprintf("%sif %s then pure (some %s) else pure none", bi, cv, rv))
	out = append(out, fmt.Sprintf("%s  ) none", ind))
	out = append(out, fmt.Sprintf("%smatch %s with", ind, fv))
	out = append(out, fmt.Sprintf("%s| some r => %s", ind, t.ret("r")))
	out = append(out, fmt.Sprintf("%s| none =>", ind))
	out = append(out, t.stmts(rest, ind+"  ")...)
	return out, true
}

// incLoop: `for x < n { x++; … }` whose body may change the state and may leave the function (`return v`): a fold over
// at most n - x rounds (x grows by one per round and nothing else assigns it) whose state carries the value returned
// so far; a round after a return, or with the condition false, does nothing. Afterwards: the recorded return, or the
// statements behind the loop.
func (t *itr) incLoop(x *ast.ForStmt, rest []ast.Stmt, ind string) ([]string, bool) {
	if x.Init != nil || x.Post != nil || x.Cond == nil || len(x.Body.List) == 0 || len(t.curResT) == 0 || t.recv == "" || t.earlyItems != "" || t.loopVar != "" {
		return nil, false
	}
	cond, ok := x.Cond.(*ast.BinaryExpr)
	if !ok || cond.Op != token.LSS {
		return nil, false
	}
	inc, ok := x.Body.List[0].(*ast.IncDecStmt)
	if !ok || inc.Tok != token.INC || types.ExprString(inc.X) != types.ExprString(cond.X) {
		return nil, false
	}
	if t.leanType(t.typeOf(cond.X)) != "BitVec 32" {
		return nil, false
	}
	// the counter is assigned nowhere else in the body (calls that write it are excluded by the caller's configuration)
	cnt := types.ExprString(cond.X)
	bad := false
	for _, s := range x.Body.List[1:] {
		ast.Inspect(s, func(n ast.Node) bool {
			switch a := n.(type) {
			case *ast.AssignStmt:
				for _, l := range a.Lhs {
					if types.ExprString(l) == cnt {
						bad = true
					}
				}
			case *ast.IncDecStmt:
				if types.ExprString(a.X) == cnt {
					bad = true
				}
			case *ast.ForStmt, *ast.RangeStmt:
				bad = true
			}
			return true
		})
	}
	if bad {
		return nil, false
	}
	out := []string{}
	pre := []string{}
	cur := t.expr(cond.X, &pre)
	lim := t.expr(cond.Y, &pre)
	for _, l := range pre {
		out = append(out, ind+l)
	}
	st := t.stateTuple()
	items := strings.TrimSuffix(strings.TrimPrefix(st, "("), ")")
	rt := paren(strings.Join(t.curResT, " × "))
	rv := t.tmp("ret")
	holes := strings.Repeat("_ × ", strings.Count(items, ",")+1)
	out = append(out, fmt.Sprintf("%slet (%s, %s) ← (List.range (((%s).toInt - (%s).toInt).toNat)).foldlM (fun ((%s, %s) : %sOption %s) _ => do", ind, items, rv, lim, cur, items, rv, holes, rt))
	bi := ind + "    "
	out = append(out, fmt.Sprintf("%sif %s.isSome then pure (%s, %s) else", bi, rv, items, rv))
	cpre := []string{}
	cv := t.expr(x.Cond, &cpre)
	for _, l := range cpre {
		out = append(out, bi+l)
	}
	out = append(out, fmt.Sprintf("%sif !(%s) then pure (%s, %s) else", bi, cv, items, rv))
	savedLoopVar, savedEarly := t.loopVar, t.earlyItems
	t.loopVar = fmt.Sprintf("(%s, (none : Option %s))", items, rt)
	t.earlyItems = items
	out = append(out, t.stmts(x.Body.List, bi)...)
	t.loopVar, t.earlyItems = savedLoopVar, savedEarly
	out = append(out, fmt.Sprintf("%s  ) (%s, none)", ind, items))
	out = append(out, fmt.Sprintf("%smatch %s with", ind, rv))
	out = append(out, fmt.Sprintf("%s| some r => %s", ind, t.ret("r")))
	out = append(out, fmt.Sprintf("%s| none =>", ind))
	out = append(out, t.stmts(rest, ind+"  ")...)
	return out, true
}

// readPath reads the value at an lvalue using pre-evaluated indices
func (t *itr) readPath(e ast.Expr, idx []string, pre *[]string) string {
	root, steps, ok := t.lvalue(e)
	if !ok {
		return t.fail("unsupported lvalue")
	}
	cur := root
	k := 0
	for _, s := range steps {
		if s.field != "" {
			cur = "(" + cur + ")." + s.field
		} else {
			v := t.tmp("c")
			*pre = append(*pre, fmt.Sprintf("let %s ← %s %s %s", v, t.getFn(s.contT), cur, idx[k]))
			k++
			cur = v
		}
	}
	return cur
}

func (t *itr) emitStruct(sb *strings.Builder, name string) {
	o := t.p.pkg.Scope().Lookup(name)
	if o == nil {
		t.fail("type not found: %s", name)
		return
	}
	st, ok := o.Type().Underlying().(*types.Struct)
	if !ok {
		t.fail("not a struct: %s", name)
		return
	}
	pos := t.p.fset.Position(o.Pos())
	tparams := ""
	if nt, ok := o.Type().(*types.Named); ok && nt.TypeParams() != nil {
		for i := 0; i < nt.TypeParams().Len(); i++ {
			if numericParam(nt.TypeParams().At(i)) {
				continue
			}
			tparams += fmt.Sprintf(" (%s : Type)", nt.TypeParams().At(i).Obj().Name())
		}
	}
	fmt.Fprintf(sb, "/-- %s:%d `%s` -/\nstructure %s%s where\n", relPath(pos.Filename), pos.Line, name, name, tparams)
	fieldsOf := []*types.Var{}
	for i := 0; i < st.NumFields(); i++ {
		f := st.Field(i)
		if f.Embedded() {
			// an embedded (pointer to a) struct: its fields are promoted — the structure is flattened
			et := f.Type()
			if p, ok := et.(*types.Pointer); ok {
				et = p.Elem()
			}
			if es, ok := et.Underlying().(*types.Struct); ok {
				for k := 0; k < es.NumFields(); k++ {
					fieldsOf = append(fieldsOf, es.Field(k))
				}
				continue
			}
		}
		fieldsOf = append(fieldsOf, f)
	}
	for _, f := range fieldsOf {
		if v, ok := t.view[name]; ok {
			keep := false
			for _, k := range v {
				if k == f.Name() {
					keep = true
				}
			}
			if !keep {
				continue
			}
		}
		fmt.Fprintf(sb, "  %s : %s\n", f.Name(), t.leanType(f.Type()))
		if t.structs[f.Name()] && f.Name() != name {
			if t.shadow == nil {
				t.shadow = map[string]bool{}
			}
			t.shadow[f.Name()] = true
		}
	}
	t.shadow = nil
	fmt.Fprintf(sb, "deriving Repr, Inhabited, DecidableEq\n\n")
}

func (t *itr) emitFunc(sb *strings.Builder, goName string) {
	fd, ok := t.p.funcs[goName]
	if !ok {
		t.fail("function not found: %s", goName)
		return
	}
	t.fresh = 0
	t.recv, t.recvTp = "", ""
	t.alias = nil
	t.relVar = nil
	t.retExtra = nil
	extraT := []string{}
	t.curEff = t.usesEff[goName]
	t.curFn = goName
	params := []string{}
	addTP := func(tp *types.TypeParamList) {
		for i := 0; tp != nil && i < tp.Len(); i++ {
			if numericParam(tp.At(i)) {
				continue
			}
			params = append(params, fmt.Sprintf("{%s : Type} [Inhabited %s]", tp.At(i).Obj().Name(), tp.At(i).Obj().Name()))
		}
	}
	if obj, ok := t.p.info.Defs[fd.Name].(*types.Func); ok {
		sig := obj.Type().(*types.Signature)
		addTP(sig.RecvTypeParams())
		addTP(sig.TypeParams())
	}
	if t.curEff {
		params = append([]string{"{Ext : Type}"}, params...)
	}
	for _, e := range t.needExt[goName] {
		tp := t.externs[t.extOwner[e]]
		if t.curEff && t.stateful(e) {
			tp = "Ext → " + tp
		}
		params = append(params, fmt.Sprintf("(%s : %s)", e, tp))
	}
	if fd.Recv != nil {
		r := fd.Recv.List[0]
		if _, ok := r.Type.(*ast.StarExpr); ok {
			t.recv = r.Names[0].Name
			t.recvTp = t.leanType(t.typeOf(r.Type))
		}
		params = append(params, fmt.Sprintf("(%s : %s)", r.Names[0].Name, t.leanType(t.typeOf(r.Type))))
	}
	pi := 0
	for _, f := range fd.Type.Params.List {
		ptp := t.typeOf(f.Type)
		lt := t.leanType(ptp)
		isInOut := false
		if pp, ok := ptp.(*types.Pointer); ok && fd.Recv != nil {
			if nt, ok := pp.Elem().(*types.Named); ok && t.structs[nt.Obj().Name()] && t.writesThrough(fd, f.Names) {
				isInOut = true
			}
		}
		for _, n := range f.Names {
			params = append(params, fmt.Sprintf("(%s : %s)", n.Name, lt))
			if isInOut {
				t.retExtra = append(t.retExtra, n.Name)
				extraT = append(extraT, lt)
				if t.inout == nil {
					t.inout = map[string][]int{}
				}
				found := false
				for _, k := range t.inout[goName] {
					if k == pi {
						found = true
					}
				}
				if !found {
					t.inout[goName] = append(t.inout[goName], pi)
				}
			}
			pi++
		}
	}
	if t.curEff {
		params = append(params, "(ext : Ext)")
		t.retExtra = append(t.retExtra, "ext")
		extraT = append(extraT, "Ext")
	}
	resT := ""
	t.curSelfRet = false
	if t.selfRet && fd.Recv != nil && fd.Type.Results != nil && len(fd.Type.Results.List) == 1 &&
		types.ExprString(fd.Type.Results.List[0].Type) == types.ExprString(fd.Recv.List[0].Type) {
		t.curSelfRet = true // `return f`: the receiver is handed back anyway
	}
	if fd.Type.Results != nil && !t.curSelfRet {
		rts := []string{}
		for _, f := range fd.Type.Results.List {
			if len(f.Names) > 0 {
				t.fail("named results are not supported: %s", goName)
				return
			}
			rts = append(rts, t.leanType(t.typeOf(f.Type)))
		}
		t.curResT = rts
		if len(rts) == 1 {
			resT = rts[0]
		} else if len(rts) > 1 {
			resT = "(" + strings.Join(rts, " × ") + ")"
		}
	}
	ret := "Unit"
	switch {
	case len(extraT) > 0:
		parts := []string{}
		if t.recv != "" {
			parts = append(parts, t.recvTp)
		}
		parts = append(parts, extraT...)
		if resT != "" {
			parts = append(parts, resT)
		}
		ret = "(" + strings.Join(parts, " × ") + ")"
	case t.recv != "" && resT != "":
		ret = fmt.Sprintf("(%s × %s)", t.recvTp, resT)
	case t.recv != "":
		ret = t.recvTp
	case resT != "":
		ret = resT
	}
	lines := t.stmts(fd.Body.List, "  ")
	pos := t.p.fset.Position(fd.Pos())
	fmt.Fprintf(sb, "/-- %s:%d `%s` -/\ndef %s %s : Option %s := do\n%s\n\n", relPath(pos.Filename), pos.Line, goName, goName, strings.Join(params, " "), paren(ret), strings.Join(lines, "\n"))
}

// genPools: entityPool, bitPool, lockMask for one build
func genPools(repo string, tiny bool) (string, []string) {
	ecs, err := loadPkg(repo, "ecs", "github.com/mlange-42/arche/ecs", tiny)
	if err != nil {
		return "", []string{err.Error()}
	}
	ns, mns, imp := "ArcheGen.P256", "ArcheGen.M256", "ArcheGen.Build256"
	if tiny {
		ns, mns, imp = "ArcheGen.P64", "ArcheGen.M64", "ArcheGen.Build64"
	}
	t := &itr{p: ecs, structs: map[string]bool{"Entity": true, "entityPool": true, "bitPool": true, "lockMask": true, "Resources": true, "bitSet": true, "idMap": true, "intPool": true, "pointers": true},
		opaque: map[string]bool{"componentRegistry": true}, maskNS: mns}
	t.ns = ns
	t.externs = map[string]string{"componentRegistry.isRelation": "GoAny → Bool", "Cache.getArchetypes": "GoAny → GoSlice (Option Nat)",
		"assert.CachedFilter": "GoAny → Bool"}
	t.extOwner = map[string]string{"isRelationF": "componentRegistry.isRelation", "getArchetypesF": "Cache.getArchetypes",
		"isCachedFilterF": "assert.CachedFilter"}
	t.fieldExt = map[string]string{"Cache.getArchetypes": "getArchetypesF"}
	t.tokens = map[string]bool{"archetype": true, "archNode": true, "pagedSlice": true}
	t.effExt = map[string]string{"archetype.Alloc": "archAllocF", "archNode.Reset": "nodeResetF"}
	t.effInout = map[string][]int{"archNode.Reset": {0}}
	t.aliasCall = map[string]string{"World.Cache": "filterCache"}
	t.usesEff = map[string]bool{"World.LoadEntities": true, "World.Reset": true, "World.createEntity": true, "World.createEntities": true,
		"World.removeArchetype": true, "World.cleanupArchetype": true, "World.cleanupArchetypes": true, "World.RemoveEntity": true,
		"World.createArchetype": true, "World.setRelation": true, "World.exchangeNoNotify": true, "World.removeEntities": true,
		"World.newEntitiesNoNotify": true, "World.notifyExchange": true, "World.exchange": true, "World.NewEntity": true,
		"World.findArchetypeSlow": true, "World.findOrCreateArchetypeSlow": true, "World.findOrCreateArchetype": true}
	t.reslice = map[string]bool{"World.createEntities": true}
	t.ptrOption = true
	t.joinIf = map[string]bool{"World.RemoveEntity": true, "World.createEntities": true, "World.createArchetype": true, "World.setRelation": true,
		"World.exchangeNoNotify": true, "World.getExchangeMask": true, "World.removeEntities": true, "World.newEntitiesNoNotify": true,
		"World.notifyExchange": true, "World.exchange": true, "World.NewEntity": true,
		"World.findArchetypeSlow": true, "World.findOrCreateArchetypeSlow": true, "World.findOrCreateArchetype": true}
	t.worldExt = map[string]string{"World.findOrCreateArchetype": "findOrCreateF", "World.createArchetypeNode": "createNodeF"}
	t.tokField = map[string]string{"archNode.neighbors.Get": "nodeNeighborGetF", "archNode.neighbors.Set": "nodeNeighborSetF"}
	// query iteration (ecs/query.go): the cached-list and node-list walks; the batch walk and the node walk stay parameters
	t.structs["Query"] = true
	t.structs["Component"] = true
	t.structs["batchArchetypes"] = true
	t.assertExt = map[string]string{"batchArchetypes": "asBatchF"}
	t.ptrInject = map[string]string{"batchArchetypes": "ofBatchF"}
	for _, f := range []string{"Query.countEntities", "Query.Count", "Query.entityAt", "Query.EntityAt", "World.exchangeArch", "World.exchangeBatchNoNotify", "World.setRelationArch", "World.setRelationBatchNoNotify"} {
		t.joinIf[f] = true
	}
	for _, f := range []string{"World.exchangeArch", "World.exchangeBatchNoNotify", "World.setRelationArch", "World.setRelationBatchNoNotify", "World.newEntities", "World.newEntityTarget", "World.copyTo", "World.closeQuery", "World.assign", "World.notifyQuery", "World.exchangeBatch", "World.setRelationBatch", "World.exchangeBatchQuery", "World.setRelationBatchQuery", "World.newEntitiesQuery", "World.newEntitiesWithNoNotify", "World.newEntitiesWith", "World.newEntitiesWithQuery", "World.newEntityTargetWith"} {
		t.usesEff[f] = true
		t.joinIf[f] = true
	}
	t.tokens["archetypeAccess"] = true
	t.srcExt = map[string]string{"q.world.closeQuery": "closeQueryF"}
	t.worldExt["World.notifyQuery"] = "notifyQueryF"
	for _, f := range []string{"Query.nextArchetypeFiltered", "Query.nextBatch", "Query.nextNode", "Query.nextNodeOrArchetype", "Query.nextArchetype", "Query.Next"} {
		t.usesEff[f] = true
	}
	for _, f := range []string{"Query.setArchetype", "Query.stepArchetype", "Query.nextArchetypeSimple", "Query.nextArchetypeFiltered", "Query.nextArchetypeBatch", "Query.nextBatch", "Query.nextNode", "Query.nextNodeOrArchetype", "Query.nextArchetype", "Query.Next"} {
		t.joinIf[f] = true
	}
	t.tokens["archetypeData"] = true
	for k, v := range map[string]string{"archetype.SetPointer": "archSetPointerF", "archNode.CreateArchetype": "nodeCreateArchetypeF",
		"pagedSlice.Add": "pagedAddF", "archetype.Init": "archInitF", "archNode.SetArchetype": "nodeSetArchetypeF"} {
		t.effExt[k] = v
	}
	t.effIface = map[string]string{"Notify": "notifyF"}
	t.structs["EntityEvent"] = true
	t.effExt["archetype.Remove"] = "archRemoveF"
	t.nilChecks = map[string]bool{}
	for _, f := range []string{"World.newEntitiesWithNoNotify", "World.newEntitiesWith", "World.newEntitiesWithQuery", "World.newEntityTargetWith", "World.newEntitiesQuery", "World.exchangeBatchQuery", "World.setRelationBatchQuery", "World.exchangeBatch", "World.setRelationBatch", "World.notifyQuery", "World.assign", "World.closeQuery", "World.copyTo", "World.newEntityTarget", "World.newEntities", "World.exchangeArch", "World.exchangeBatchNoNotify", "World.setRelationArch", "World.setRelationBatchNoNotify", "Query.setArchetype", "Query.stepArchetype", "Query.nextArchetypeSimple", "Query.nextArchetypeFiltered", "Query.nextArchetypeBatch", "Query.nextBatch", "Query.nextNode", "Query.nextNodeOrArchetype", "Query.nextArchetype", "Query.Next",
		"Query.countEntities", "Query.Count", "Query.entityAt", "Query.EntityAt", "World.findArchetypeSlow", "World.findOrCreateArchetypeSlow", "World.findOrCreateArchetype", "World.NewEntity", "World.notifyExchange", "World.exchange", "World.newEntitiesNoNotify", "World.removeEntities", "World.getExchangeMask", "World.exchangeNoNotify", "World.createArchetype", "World.setRelation", "World.RemoveEntity", "World.removeArchetype", "World.cleanupArchetype", "World.cleanupArchetypes", "World.createEntity", "World.createEntities", "World.Has", "World.HasUnchecked", "World.Mask",
		"World.relationError", "World.checkRelation", "World.getRelation", "World.getRelationUnchecked"} {
		t.nilChecks[f] = true
	}
	t.effExt["archetype.AllocN"] = "archAllocNF"
	t.effExt["archetype.Set"] = "archSetF"
	t.effExt["archetype.SetEntity"] = "archSetEntityF"
	t.effExt["archNode.RemoveArchetype"] = "nodeRemoveArchetypeF"
	t.effExt["archetype.Reset"] = "archResetF"
	t.pureFn = map[string]string{"capacity": "ArcheGen.Arith.capacity", "subscription": mns + ".subscription", "subscribes": mns + ".subscribes",
		"capacityNonZero": "ArcheGen.Arith.capacityNonZero"}
	for _, n := range []string{"EntityDump", "entityIndex", "Config"} {
		t.structs[n] = true
	}
	t.view = map[string][]string{"World": {"nodePointers", "filterCache", "locks", "entityPool", "resources", "entities", "targetEntities", "archetypes", "nodes", "relationNodes", "listener", "archetypeData", "registry", "config"},
		"Config": {"CapacityIncrement", "RelationCapacityIncrement"},
		"Query":  {"nodeArchetypes", "nodes", "filter", "access", "archetype", "archetypes", "entityIndex", "entityIndexMax", "archIndex", "nodeIndex", "count", "lockBit", "isFiltered", "isBatch"}}
	t.structs["World"] = true
	t.tokExt = map[string]string{"archetype.Mask": "archMaskF", "archetype.RelationTarget": "archTargetF", "archetype.HasRelation": "archHasRelationF"}
	t.ifaceExt = map[string]string{"Matches": "matchesF", "Len": "archsLenF", "Get": "archsGetF", "Subscriptions": "lstSubsF", "Components": "lstCompsF"}
	for k, v := range map[string]string{"archNode.IsActive": "nodeActiveF", "archNode.Matches": "nodeMatchesF", "archNode.HasRelation": "nodeHasRelationF",
		"archNode.archetypeMap": "nodeArchMapF", "archNode.Archetypes": "nodeArchetypesF", "archetype.IsActive": "archActiveF", "pagedSlice.Get": "pagedGetF", "pagedSlice.Len": "pagedLenF",
		"archetype.Len": "archLenF", "archetype.HasComponent": "archHasComponentF", "archetype.node": "archNodeF", "archNode.Relation": "nodeRelationF",
		"archetype.HasRelationComponent": "archHasRelCompF", "archetype.RelationComponent": "archRelCompF", "archNode.Ids": "nodeIdsF", "archetype.GetEntity": "archGetEntityF",
		"archNode.GetArchetype": "nodeGetArchetypeF", "archNode.Mask": "nodeMaskF", "archetype.archetypeAccess": "archAccessF", "archetype.index": "archIndexF", "archetype.Get": "archGetF", "archetype.Components": "archComponentsF"} {
		t.tokExt[k] = v
	}
	for k, v := range map[string][2]string{
		"nodeActiveF": {"tok.nodeActive", "Option Nat → Bool"}, "nodeMatchesF": {"tok.nodeMatches", "Option Nat → GoAny → Bool"},
		"nodeHasRelationF": {"tok.nodeHasRelation", "Option Nat → Bool"}, "nodeArchMapF": {"tok.nodeArchMap", "Option Nat → Entity → Option (Option Nat)"},
		"nodeArchetypesF": {"tok.nodeArchetypes", "Option Nat → GoAny"}, "archActiveF": {"tok.archActive", "Option Nat → Bool"},
		"archsLenF": {"iface.Len", "GoAny → BitVec 32"}, "archsGetF": {"iface.Get", "GoAny → BitVec 32 → Option Nat"},
		"asCachedFilterF": {"assert.CachedFilterValue", "GoAny → Option CachedFilter"},
		"pagedGetF":       {"tok.pagedGet", "Nat → BitVec 32 → Option Nat"}, "pagedLenF": {"tok.pagedLen", "Nat → BitVec 32"},
		"nodeResetF":           {"eff.nodeReset", "Ext → Option Nat → Cache → Ext × Cache"},
		"archAllocNF":          {"eff.archAllocN", "Ext → Option Nat → BitVec 32 → Ext × Unit"},
		"archSetEntityF":       {"eff.archSetEntity", "Ext → Option Nat → BitVec 32 → Entity → Ext × Unit"},
		"staleF":               {"stale.entityIndex", "Nat → entityIndex"},
		"archResetF":           {"eff.archReset", "Ext → Option Nat → Ext × Unit"},
		"asBatchF":             {"assert.batch", "GoAny → Option batchArchetypes"},
		"ofBatchF":             {"inject.batch", "batchArchetypes → GoAny"},
		"notifyQueryF":         {"eff.notifyQuery", "Ext → World → batchArchetypes → Ext × World × Unit"},
		"archSetF":             {"eff.archSet", "Ext → Option Nat → BitVec 32 → BitVec 8 → GoAny → Ext × GoAny"},
		"nextBatchF":           {"eff.nextBatch", "Ext → Query → Ext × Query × Bool"},
		"nextNodeF":            {"eff.nextNode", "Ext → Query → Ext × Query × Bool"},
		"closeQueryF":          {"eff.closeQuery", "Ext → Query → Ext × Query"},
		"archAccessF":          {"tok.archAccess", "Option Nat → Option Nat"},
		"archIndexF":           {"tok.archIndex", "Option Nat → BitVec 32"},
		"createNodeF":          {"eff.createNode", "Ext → World → " + mns + ".Mask → BitVec 8 → Bool → Ext × World × Option Nat"},
		"nodeNeighborGetF":     {"tok.nodeNeighborGet", "Option Nat → BitVec 8 → Option Nat × Bool"},
		"nodeNeighborSetF":     {"eff.nodeNeighborSet", "Ext → Option Nat → BitVec 8 → Option Nat → Ext × Unit"},
		"nodeMaskF":            {"tok.nodeMask", "Option Nat → " + mns + ".Mask"},
		"findOrCreateF":        {"eff.findOrCreate", "Ext → World → Option Nat → GoSlice (BitVec 8) → GoSlice (BitVec 8) → Entity → Ext × World × Option Nat"},
		"archComponentsF":      {"tok.archComponents", "Option Nat → GoSlice (BitVec 8)"},
		"archSetPointerF":      {"eff.archSetPointer", "Ext → Option Nat → BitVec 32 → BitVec 8 → GoAny → Ext × Unit"},
		"nodeCreateArchetypeF": {"eff.nodeCreateArchetype", "Ext → Option Nat → Int → Entity → Ext × Option Nat"},
		"pagedAddF":            {"eff.pagedAdd", "Ext → Nat → Ext × Unit"},
		"archInitF":            {"eff.archInit", "Ext → Option Nat → Option Nat → Option Nat → BitVec 32 → Bool → Int → Entity → Ext × Unit"},
		"nodeSetArchetypeF":    {"eff.nodeSetArchetype", "Ext → Option Nat → Option Nat → Ext × Unit"},
		"nodeGetArchetypeF":    {"tok.nodeGetArchetype", "Option Nat → Entity → Option Nat × Bool"},
		"archGetF":             {"tok.archGet", "Option Nat → BitVec 32 → BitVec 8 → GoAny"},
		"archRemoveF":          {"eff.archRemove", "Ext → Option Nat → BitVec 32 → Ext × Bool"},
		"notifyF":              {"eff.notify", "Ext → GoAny → EntityEvent → Ext × Unit"},
		"archHasRelCompF":      {"tok.archHasRelComp", "Option Nat → Bool"}, "archRelCompF": {"tok.archRelComp", "Option Nat → BitVec 8"},
		"nodeIdsF": {"tok.nodeIds", "Option Nat → GoSlice (BitVec 8)"}, "archGetEntityF": {"tok.archGetEntity", "Option Nat → BitVec 32 → Entity"},
		"lstSubsF": {"tok.lstSubs", "GoAny → BitVec 8"}, "lstCompsF": {"tok.lstComps", "GoAny → Option (" + mns + ".Mask)"},
		"nodeRemoveArchetypeF": {"eff.nodeRemoveArchetype", "Ext → Option Nat → Option Nat → Ext × Unit"},
		"archLenF":             {"tok.archLen", "Option Nat → BitVec 32"}, "archHasComponentF": {"tok.archHasComponent", "Option Nat → BitVec 8 → Bool"},
		"archNodeF": {"tok.archNode", "Option Nat → Option Nat"}, "nodeRelationF": {"tok.nodeRelation", "Option Nat → BitVec 8"},
		"archAllocF": {"eff.archAlloc", "Ext → Option Nat → Entity → Ext × BitVec 32"}} {
		t.extOwner[k] = v[0]
		t.externs[v[0]] = v[1]
	}
	t.externs["tok.Mask"] = "Option Nat → " + mns + ".Mask"
	t.externs["tok.Target"] = "Option Nat → Entity"
	t.externs["tok.HasRelation"] = "Option Nat → Bool"
	t.externs["iface.Matches"] = "GoAny → " + mns + ".Mask → Bool"
	t.externs["assert.RelationFilter"] = "GoAny → Option Entity"
	t.extOwner["archMaskF"] = "tok.Mask"
	t.extOwner["archTargetF"] = "tok.Target"
	t.extOwner["archHasRelationF"] = "tok.HasRelation"
	t.extOwner["matchesF"] = "iface.Matches"
	t.extOwner["relationTargetF"] = "assert.RelationFilter"
	for _, n := range []string{"cacheEntry", "Cache", "CachedFilter"} {
		t.structs[n] = true
	}
	t.needExt = map[string][]string{}
	t.opaque = map[string]bool{}
	t.structs["componentRegistry"] = true
	var sb strings.Builder
	fmt.Fprintf(&sb, "/- GENERATED by /verif/extract (imperative translator) from the Go source of /repo — do not edit. -/\nimport %s\nimport ArcheGen.Arith\nset_option linter.unusedVariables false\nnamespace %s\nopen ArcheGen\n\n", imp, ns)
	if o := ecs.pkg.Scope().Lookup("MaskTotalBits"); o != nil {
		if k, ok := o.(*types.Const); ok {
			fmt.Fprintf(&sb, "def MaskTotalBits : Nat := %s\n\n", k.Val().ExactString())
		}
	}
	for _, s := range []string{"Entity", "entityPool", "bitPool", "lockMask", "componentRegistry", "Resources", "bitSet", "idMap", "intPool", "pointers", "CachedFilter", "cacheEntry", "Cache", "Config", "entityIndex", "EntityDump", "EntityEvent", "World", "batchArchetypes", "Query", "Component"} {
		t.emitStruct(&sb, s)
	}
	funcs := []string{
		"newEntity", "newEntityPool", "entityPool.getNew", "entityPool.Get", "entityPool.Recycle", "entityPool.Reset",
		"entityPool.Alive", "entityPool.Len", "entityPool.Cap", "entityPool.TotalCap", "entityPool.Available",
		"bitPool.getNew", "bitPool.Get", "bitPool.Recycle", "bitPool.Reset",
		"lockMask.Lock", "lockMask.Unlock", "lockMask.IsLocked", "lockMask.Reset",
		"Resources.Add", "Resources.Remove", "Resources.Get", "Resources.Has", "Resources.reset",
		"bitSet.Get", "bitSet.Set", "bitSet.Reset", "bitSet.ExtendTo",
		"newIDMap", "idMap.Get", "idMap.Set", "idMap.Remove",
		"newIntPool", "intPool.getNew", "intPool.Get", "intPool.Recycle", "intPool.Reset",
		"pointers.Get", "pointers.Add", "pointers.RemoveAt", "pointers.Len",
		"newComponentRegistry", "componentRegistry.ComponentType", "componentRegistry.Count", "componentRegistry.registerComponent",
		"componentRegistry.ComponentID", "componentRegistry.unregisterLastComponent",
		"Cache.Register", "Cache.Unregister", "Cache.get", "Cache.mapArchetypes", "Cache.addArchetype", "Cache.removeArchetype",
		"World.getArchetypes", "World.IsLocked", "World.lock", "World.unlock", "World.checkLocked", "World.Alive", "World.LoadEntities", "World.Reset",
		"World.createEntity", "World.createEntities", "World.Has", "World.HasUnchecked", "World.Mask",
		"World.relationError", "World.checkRelation", "World.getRelation", "World.getRelationUnchecked",
		"Entity.IsZero", "World.removeArchetype", "World.cleanupArchetype", "World.cleanupArchetypes", "World.RemoveEntity",
		"World.createArchetype", "World.setRelation", "World.getExchangeMask", "World.exchangeNoNotify", "World.removeEntities", "World.newEntitiesNoNotify", "World.notifyExchange", "World.exchange", "World.NewEntity",
		"World.findArchetypeSlow", "World.findOrCreateArchetypeSlow", "World.findOrCreateArchetype",
		"batchArchetypes.Get", "batchArchetypes.Len", "batchArchetypes.Add", "World.exchangeArch", "World.exchangeBatchNoNotify", "World.setRelationArch", "World.setRelationBatchNoNotify", "World.newEntities", "World.newEntityTarget", "World.copyTo", "World.notifyQuery", "World.exchangeBatch", "World.setRelationBatch", "World.closeQuery", "World.assign", "Query.countEntities", "Query.Count", "Query.entityAt", "Query.EntityAt",
		"Query.checkNext", "Query.setArchetype", "Query.stepArchetype", "Query.nextArchetypeSimple", "Query.nextArchetypeFiltered",
		"Query.nextArchetypeBatch", "Query.nextBatch", "Query.nextNode", "Query.nextNodeOrArchetype", "Query.nextArchetype", "Query.Next",
		"newBatchQuery", "World.exchangeBatchQuery", "World.setRelationBatchQuery", "World.newEntitiesQuery", "World.newEntitiesWithNoNotify", "World.newEntitiesWith", "World.newEntitiesWithQuery", "World.newEntityTargetWith",
	}
	// which functions need the uninterpreted-function parameters (directly or through a callee)
	calls := map[string][]string{}
	direct := map[string]map[string]bool{}
	for _, f := range funcs {
		fd, ok := ecs.funcs[f]
		if !ok {
			continue
		}
		direct[f] = map[string]bool{}
		ast.Inspect(fd.Body, func(n ast.Node) bool {
			call, ok := n.(*ast.CallExpr)
			if !ok {
				return true
			}
			if _, viaSrc := t.srcExt[types.ExprString(call.Fun)]; viaSrc {
				return true // kept outside by its source text: its own parameters do not propagate
			}
			if id, ok := call.Fun.(*ast.Ident); ok {
				if _, own := ecs.funcs[id.Name]; own {
					calls[f] = append(calls[f], id.Name)
				}
			}
			if sel, ok := call.Fun.(*ast.SelectorExpr); ok {
				rt := t.typeOf(sel.X)
				if p, ok := rt.(*types.Pointer); ok {
					rt = p.Elem()
				}
				if nt, ok := rt.(*types.Named); ok {
					name := nt.Obj().Name() + "." + sel.Sel.Name
					if _, isExt := t.externs[name]; isExt {
						direct[f][sel.Sel.Name+"F"] = true
					} else if _, viaExt := t.worldExt[name]; !viaExt {
						calls[f] = append(calls[f], name)
					}
				}
			}
			return true
		})
	}
	// pass 1: which uninterpreted-function parameters does each body mention?
	nerr := len(t.errs)
	for _, f := range funcs {
		var tmp strings.Builder
		t.emitFunc(&tmp, f)
		if direct[f] == nil {
			direct[f] = map[string]bool{}
		}
		for ext := range t.extOwner {
			if strings.Contains(tmp.String(), ext) {
				direct[f][ext] = true
			}
		}
	}
	t.errs = t.errs[:nerr]
	for changed := true; changed; {
		changed = false
		for _, f := range funcs {
			for _, g := range calls[f] {
				for e := range direct[g] {
					if direct[f] != nil && !direct[f][e] {
						direct[f][e] = true
						changed = true
					}
				}
			}
		}
	}
	for _, f := range funcs {
		for e := range direct[f] {
			t.needExt[f] = append(t.needExt[f], e)
		}
		sort.Strings(t.needExt[f])
	}
	for _, f := range funcs {
		if f == "batchArchetypes.Add" || f == "World.setRelationBatchNoNotify" || f == "World.notifyQuery" {
			// `end`, a parameter / variable name there, is a keyword of Lean: written `end_`
			var tmp strings.Builder
			t.emitFunc(&tmp, f)
			sb.WriteString(regexp.MustCompile(`\bend\b`).ReplaceAllString(tmp.String(), "end_"))
			continue
		}
		t.emitFunc(&sb, f)
	}
	fmt.Fprintf(&sb, "end %s\n", ns)
	return sb.String(), t.errs
}

// genDispatch: listener.Dispatch (listener/dispatch.go), with the sub-listeners as values outside the module
func genDispatch(repo string, tiny bool) (string, []string) {
	lp, err := loadPkg(repo, "listener", "github.com/mlange-42/arche/listener", tiny)
	if err != nil {
		return "", []string{err.Error()}
	}
	ns, mns, imp, pns := "ArcheGen.L256", "ArcheGen.M256", "ArcheGen.Pool256", "ArcheGen.P256"
	if tiny {
		ns, mns, imp, pns = "ArcheGen.L64", "ArcheGen.M64", "ArcheGen.Pool64", "ArcheGen.P64"
	}
	t := &itr{p: lp, structs: map[string]bool{"Dispatch": true, "EntityEvent": true, "Entity": true}, opaque: map[string]bool{}, maskNS: mns}
	t.ns = ns
	t.ptrOption = true
	t.freeLoops = true
	t.tokens = map[string]bool{"World": true}
	t.externs = map[string]string{"tok.lstSubs": "GoAny → BitVec 8", "tok.lstComps": "GoAny → Option (" + mns + ".Mask)",
		"eff.notify": "Ext → GoAny → EntityEvent → Ext × Unit"}
	t.extOwner = map[string]string{"lstSubsF": "tok.lstSubs", "lstCompsF": "tok.lstComps", "notifyF": "eff.notify"}
	t.ifaceExt = map[string]string{"Subscriptions": "lstSubsF", "Components": "lstCompsF"}
	t.effIface = map[string]string{"Notify": "notifyF"}
	t.effExt = map[string]string{}
	t.tokExt = map[string]string{}
	t.fieldExt = map[string]string{}
	t.pureFn = map[string]string{"subscribes": mns + ".listener.subscribes"}
	t.usesEff = map[string]bool{"Dispatch.Notify": true}
	t.nilChecks = map[string]bool{"NewDispatch": true, "Dispatch.AddListener": true, "Dispatch.Notify": true, "Dispatch.Components": true}
	t.joinIf = map[string]bool{"NewDispatch": true, "Dispatch.AddListener": true, "Dispatch.Notify": true}
	t.needExt = map[string][]string{}
	var sb strings.Builder
	fmt.Fprintf(&sb, "/- GENERATED by /verif/extract (imperative translator) from the Go source of /repo — do not edit. -/\nimport %s\nset_option linter.unusedVariables false\nnamespace %s\nopen ArcheGen %s\n\n", imp, ns, pns)
	t.emitStruct(&sb, "Dispatch")
	funcs := []string{"NewDispatch", "Dispatch.AddListener", "Dispatch.Notify", "Dispatch.Subscriptions", "Dispatch.Components"}
	direct := map[string]map[string]bool{}
	nerr := len(t.errs)
	for _, f := range funcs {
		var tmp strings.Builder
		t.emitFunc(&tmp, f)
		direct[f] = map[string]bool{}
		for ext := range t.extOwner {
			if strings.Contains(tmp.String(), ext) {
				direct[f][ext] = true
			}
		}
	}
	t.errs = t.errs[:nerr]
	for _, f := range funcs {
		for e := range direct[f] {
			t.needExt[f] = append(t.needExt[f], e)
		}
		sort.Strings(t.needExt[f])
	}
	for _, f := range funcs {
		t.emitFunc(&sb, f)
	}
	fmt.Fprintf(&sb, "end %s\n", ns)
	return sb.String(), t.errs
}

// genGeneric: the generic filter builder (generic/compiled.go `compiledQuery`, and `Filter0` of
// generic/query_generated.go as the representative of the generated FilterN family — the fact tables show that
// the N variants have the same bodies). The world, reflection types and core filters are objects outside the module.
func genGeneric(repo string, tiny bool) (string, []string) {
	gp, err := loadPkg(repo, "generic", "github.com/mlange-42/arche/generic", tiny)
	if err != nil {
		return "", []string{err.Error()}
	}
	ns, mns, imp, pns := "ArcheGen.G256", "ArcheGen.M256", "ArcheGen.Pool256", "ArcheGen.P256"
	if tiny {
		ns, mns, imp, pns = "ArcheGen.G64", "ArcheGen.M64", "ArcheGen.Pool64", "ArcheGen.P64"
	}
	t := &itr{p: gp, structs: map[string]bool{"compiledQuery": true, "Filter0": true, "filter": true, "Entity": true, "CachedFilter": true, "Exchange": true}, opaque: map[string]bool{}, maskNS: mns}
	t.view = map[string][]string{"Exchange": {"add", "remove", "hasRelation", "relationID"}}
	t.ns = ns
	t.ptrOption = true
	t.tokens = map[string]bool{"World": true, "RelationFilter": true, "Cache": true, "Relations": true, "Batch": true}
	t.inject = map[string]string{"Mask": "ofMaskF", "MaskFilter": "ofMaskFilterF", "CachedFilter": "ofCachedF"}
	t.reflectIf = "isRelationTypeF"
	t.externs = map[string]string{
		"eff.toIds":                "Ext → GoSlice GoAny → Ext × GoSlice (BitVec 8)",
		"eff.toMask":               "Ext → GoSlice GoAny → Ext × " + mns + ".Mask",
		"eff.toMaskOptional":       "Ext → GoSlice (BitVec 8) → GoSlice GoAny → Ext × " + mns + ".Mask",
		"eff.typeID":               "Ext → GoAny → Ext × BitVec 8",
		"eff.cacheRegister":        "Ext → GoAny → Ext × CachedFilter",
		"eff.cacheUnreg":           "Ext → CachedFilter → Ext × GoAny",
		"pure.ofMask":              mns + ".Mask → GoAny",
		"pure.ofMaskFilter":        mns + ".MaskFilter → GoAny",
		"pure.ofCached":            "CachedFilter → GoAny",
		"pure.relFilter":           mns + ".MaskFilter → Entity → GoAny",
		"pure.isRelationType":      "GoAny → Bool",
		"assert.CachedFilterValue": "GoAny → Option CachedFilter",
		"eff.relExchange":          "Ext → Entity → GoSlice (BitVec 8) → GoSlice (BitVec 8) → BitVec 8 → Entity → Ext × Unit",
		"eff.worldAdd":             "Ext → Entity → GoSlice (BitVec 8) → Ext × Unit",
		"eff.worldRemove":          "Ext → Entity → GoSlice (BitVec 8) → Ext × Unit",
		"eff.worldExchange":        "Ext → Entity → GoSlice (BitVec 8) → GoSlice (BitVec 8) → Ext × Unit",
		"eff.relExchangeBatch":     "Ext → GoAny → GoSlice (BitVec 8) → GoSlice (BitVec 8) → BitVec 8 → Entity → Ext × Int",
		"eff.batchExchange":        "Ext → GoAny → GoSlice (BitVec 8) → GoSlice (BitVec 8) → Ext × Int",
	}
	t.extOwner = map[string]string{"toIdsF": "eff.toIds", "toMaskF": "eff.toMask", "toMaskOptionalF": "eff.toMaskOptional", "typeIDF": "eff.typeID",
		"cacheRegisterF": "eff.cacheRegister", "cacheUnregisterF": "eff.cacheUnreg", "ofMaskF": "pure.ofMask", "ofMaskFilterF": "pure.ofMaskFilter",
		"ofCachedF": "pure.ofCached", "relFilterF": "pure.relFilter", "isRelationTypeF": "pure.isRelationType", "asCachedFilterF": "assert.CachedFilterValue",
		"relExchangeF": "eff.relExchange", "worldAddF": "eff.worldAdd", "worldRemoveF": "eff.worldRemove", "worldExchangeF": "eff.worldExchange",
		"relExchangeBatchF": "eff.relExchangeBatch", "batchExchangeF": "eff.batchExchange"}
	t.effFn = map[string]string{"toIds": "toIdsF", "toMask": "toMaskF", "toMaskOptional": "toMaskOptionalF", "ecs.TypeID": "typeIDF",
		"Cache.Register": "cacheRegisterF", "Cache.Unregister": "cacheUnregisterF",
		"Relations.Exchange": "relExchangeF", "World.Add": "worldAddF", "World.Remove": "worldRemoveF", "World.Exchange": "worldExchangeF",
		"Relations.ExchangeBatch": "relExchangeBatchF", "Batch.Exchange": "batchExchangeF"}
	t.pureFn = map[string]string{"ecs.NewRelationFilter": "relFilterF"}
	t.ifaceExt = map[string]string{}
	t.effIface = map[string]string{}
	t.effExt = map[string]string{}
	t.tokExt = map[string]string{}
	t.fieldExt = map[string]string{}
	t.usesEff = map[string]bool{"compiledQuery.Compile": true, "compiledQuery.Register": true, "compiledQuery.Unregister": true,
		"Filter0.Filter": true, "Filter0.Register": true, "Filter0.Unregister": true,
		"Exchange.Removes": true, "Exchange.Add": true, "Exchange.Remove": true, "Exchange.Exchange": true, "Exchange.ExchangeBatch": true}
	t.nilChecks = map[string]bool{"compiledQuery.Compile": true}
	t.joinIf = map[string]bool{"compiledQuery.Compile": true, "compiledQuery.Unregister": true, "Filter0.Filter": true, "Filter0.WithRelation": true,
		"Exchange.Add": true, "Exchange.Remove": true, "Exchange.Exchange": true}
	t.selfRet = true
	t.needExt = map[string][]string{}
	var sb strings.Builder
	fmt.Fprintf(&sb, "/- GENERATED by /verif/extract (imperative translator) from the Go source of /repo — do not edit. -/\nimport %s\nset_option linter.unusedVariables false\nnamespace %s\nopen ArcheGen %s\n\n", imp, ns, pns)
	t.emitStruct(&sb, "compiledQuery")
	t.emitStruct(&sb, "Filter0")
	t.emitStruct(&sb, "Exchange")
	funcs := []string{"Exchange.Removes", "Exchange.Add", "Exchange.Remove", "Exchange.ExchangeBatch", "compiledQuery.Compile", "compiledQuery.Reset", "compiledQuery.Register", "compiledQuery.Unregister",
		"Filter0.With", "Filter0.Without", "Filter0.Exclusive", "Filter0.WithRelation", "Filter0.Filter", "Filter0.Register", "Filter0.Unregister", "Exchange.Exchange"} // Exchange.Exchange last: inside its namespace the name `Exchange` would shadow the structure
	direct := map[string]map[string]bool{}
	calls := map[string][]string{"Filter0.With": {"compiledQuery.Reset"}, "Filter0.Without": {"compiledQuery.Reset"}, "Filter0.Exclusive": {"compiledQuery.Reset"},
		"Filter0.WithRelation": {"compiledQuery.Reset"}, "Filter0.Filter": {"compiledQuery.Compile"}, "Filter0.Register": {"compiledQuery.Compile", "compiledQuery.Register"},
		"Filter0.Unregister": {"compiledQuery.Unregister"}}
	nerr := len(t.errs)
	for _, f := range funcs {
		var tmp strings.Builder
		t.emitFunc(&tmp, f)
		direct[f] = map[string]bool{}
		for ext := range t.extOwner {
			if strings.Contains(tmp.String(), ext) {
				direct[f][ext] = true
			}
		}
	}
	t.errs = t.errs[:nerr]
	for _, f := range funcs {
		for _, g := range calls[f] {
			for e := range direct[g] {
				direct[f][e] = true
			}
		}
	}
	for _, f := range funcs {
		for e := range direct[f] {
			t.needExt[f] = append(t.needExt[f], e)
		}
		sort.Strings(t.needExt[f])
	}
	for _, f := range funcs {
		t.emitFunc(&sb, f)
	}
	fmt.Fprintf(&sb, "end %s\n", ns)
	// `include` is a keyword of Lean: the Go identifier of that name is written `included`
	return regexp.MustCompile(`\binclude\b`).ReplaceAllString(sb.String(), "included"), t.errs
}

// genNode: the graph node (ecs/archetype_node.go `archNode` with its embedded `nodeData`): table lookup, creation with
// recycling of retired tables, retirement, reset, layout extension. Tables, paged storage and the filter cache are
// objects outside the module.
func genNode(repo string, tiny bool) (string, []string) {
	ecs, err := loadPkg(repo, "ecs", "github.com/mlange-42/arche/ecs", tiny)
	if err != nil {
		return "", []string{err.Error()}
	}
	ns, mns, imp, pns := "ArcheGen.N256", "ArcheGen.M256", "ArcheGen.Pool256", "ArcheGen.P256"
	if tiny {
		ns, mns, imp, pns = "ArcheGen.N64", "ArcheGen.M64", "ArcheGen.Pool64", "ArcheGen.P64"
	}
	t := &itr{p: ecs, structs: map[string]bool{"archNode": true, "Entity": true}, opaque: map[string]bool{}, maskNS: mns}
	t.ns = ns
	t.ptrOption = true
	t.tokens = map[string]bool{"archetype": true, "archetypeData": true, "pagedSlice": true, "Cache": true}
	t.view = map[string][]string{"archNode": {"archetype", "archetypeMap", "freeIndices", "archetypes", "archetypeData", "Mask", "Relation", "HasRelation", "IsActive"}}
	t.externs = map[string]string{}
	t.extOwner = map[string]string{}
	for k, v := range map[string][2]string{
		"pagedGetF":       {"tok.pagedGet", "Nat → BitVec 32 → Option Nat"},
		"pagedLenF":       {"tok.pagedLen", "Nat → BitVec 32"},
		"pagedAddF":       {"eff.pagedAdd", "Ext → Nat → Ext × Unit"},
		"archActivateF":   {"eff.archActivate", "Ext → Option Nat → Entity → BitVec 32 → Ext × Unit"},
		"archInitF":       {"eff.archInit", "Ext → Option Nat → Option Nat → BitVec 32 → Bool → Int → Entity → Ext × Unit"},
		"archDeactivateF": {"eff.archDeactivate", "Ext → Option Nat → Ext × Unit"},
		"archResetF":      {"eff.archReset", "Ext → Option Nat → Ext × Unit"},
		"archExtendF":     {"eff.archExtendLayouts", "Ext → Option Nat → Int → Ext × Unit"},
		"cacheRemoveF":    {"eff.cacheRemove", "Ext → Option Nat → Option Nat → Ext × Unit"},
		"archActiveF":     {"tok.archActive", "Option Nat → Bool"},
		"archTargetF":     {"tok.Target", "Option Nat → Entity"},
		"archIndexF":      {"tok.archIndex", "Option Nat → BitVec 32"},
		"matchesF":        {"iface.Matches", "GoAny → " + mns + ".Mask → Bool"},
	} {
		t.extOwner[k] = v[0]
		t.externs[v[0]] = v[1]
	}
	t.effExt = map[string]string{"pagedSlice.Add": "pagedAddF", "archetype.Activate": "archActivateF", "archetype.Init": "archInitF",
		"archetype.Deactivate": "archDeactivateF", "archetype.Reset": "archResetF", "archetype.ExtendLayouts": "archExtendF", "Cache.removeArchetype": "cacheRemoveF"}
	t.tokExt = map[string]string{"pagedSlice.Get": "pagedGetF", "pagedSlice.Len": "pagedLenF", "archetype.IsActive": "archActiveF",
		"archetype.RelationTarget": "archTargetF", "archetype.index": "archIndexF"}
	t.ifaceExt = map[string]string{"Matches": "matchesF"}
	t.effIface = map[string]string{}
	t.fieldExt = map[string]string{}
	t.dropSelf = true
	t.usesEff = map[string]bool{"archNode.CreateArchetype": true, "archNode.RemoveArchetype": true, "archNode.Reset": true, "archNode.ExtendArchetypeLayouts": true}
	t.nilChecks = map[string]bool{"archNode.CreateArchetype": true, "archNode.RemoveArchetype": true, "archNode.Reset": true, "archNode.ExtendArchetypeLayouts": true, "archNode.GetArchetype": true}
	t.joinIf = map[string]bool{"archNode.CreateArchetype": true, "archNode.Reset": true, "archNode.ExtendArchetypeLayouts": true}
	t.needExt = map[string][]string{}
	var sb strings.Builder
	fmt.Fprintf(&sb, "/- GENERATED by /verif/extract (imperative translator) from the Go source of /repo — do not edit. -/\nimport %s\nset_option linter.unusedVariables false\nnamespace %s\nopen ArcheGen %s\n\n", imp, ns, pns)
	t.emitStruct(&sb, "archNode")
	funcs := []string{"archNode.Matches", "archNode.GetArchetype", "archNode.SetArchetype", "archNode.CreateArchetype", "archNode.ExtendArchetypeLayouts",
		"archNode.RemoveArchetype", "archNode.Reset"}
	calls := map[string][]string{"archNode.Reset": {"archNode.RemoveArchetype"}}
	direct := map[string]map[string]bool{}
	nerr := len(t.errs)
	for _, f := range funcs {
		var tmp strings.Builder
		t.emitFunc(&tmp, f)
		direct[f] = map[string]bool{}
		for ext := range t.extOwner {
			if strings.Contains(tmp.String(), ext) {
				direct[f][ext] = true
			}
		}
	}
	t.errs = t.errs[:nerr]
	for _, f := range funcs {
		for _, g := range calls[f] {
			for e := range direct[g] {
				direct[f][e] = true
			}
		}
	}
	for _, f := range funcs {
		for e := range direct[f] {
			t.needExt[f] = append(t.needExt[f], e)
		}
		sort.Strings(t.needExt[f])
	}
	for _, f := range funcs {
		t.emitFunc(&sb, f)
	}
	fmt.Fprintf(&sb, "end %s\n", ns)
	return sb.String(), t.errs
}

// checkSubscriptionBodies: the two methods of event.Subscription written out inline by the translator must still have the
// bodies they had (ecs/event/event.go); otherwise the translation is refused.
func (t *itr) checkSubscriptionBodies() string {
	src, err := os.ReadFile("ecs/event/event.go")
	if err != nil {
		src, err = os.ReadFile("event/event.go")
	}
	if err != nil {
		return "cannot read ecs/event/event.go: " + err.Error()
	}
	norm := strings.Join(strings.Fields(string(src)), " ")
	for _, want := range []string{
		"func (s Subscription) Contains(bits Subscription) bool { return (bits & s) == bits }",
		"func (s Subscription) ContainsAny(bits Subscription) bool { return (bits & s) != 0 }",
	} {
		if !strings.Contains(norm, want) {
			return "event.Subscription method changed: expected `" + want + "`"
		}
	}
	return ""
}

// injectInto: a pointer to a translated struct stored into an interface-typed field (`nodeArchetypes: archetype`) goes
// through the uninterpreted injection that is the other direction of the type assertion `x.(*T)` (`assertExt`).
func (t *itr) injectInto(st *types.Struct, field string, val ast.Expr) string {
	if t.ptrInject == nil {
		return ""
	}
	for i := 0; i < st.NumFields(); i++ {
		if st.Field(i).Name() != field {
			continue
		}
		if _, isIface := st.Field(i).Type().Underlying().(*types.Interface); !isIface {
			return ""
		}
		vt := t.typeOf(val)
		if p, ok := vt.(*types.Pointer); ok {
			if nt, ok := p.Elem().(*types.Named); ok {
				return t.ptrInject[nt.Obj().Name()]
			}
		}
	}
	return ""
}
