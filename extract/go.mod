module verifextract

go 1.21
