package main

// extract <repo> <outdir>: regenerates lean/ArcheGen/*.lean from the Go source of arche.
//
//   Build256.lean / Build64.lean : Mask (4×64-bit / 1×64-bit words) methods, mask filters, logic
//                                  filters, Subscription methods, subscription(), both copies of
//                                  subscribes() — translated statement by statement
//   Arith.lean                   : capacity, capacityNonZero, capacityU32 and constants
//   Pool256.lean / Pool64.lean   : entityPool, bitPool (ecs/pool.go) and lockMask (ecs/util.go), structures
//                                  and methods, by the imperative translator (imper.go)
//   Facts.lean                   : fact tables (widths, API surface and lock guards, generic code,
//                                  map ranges, package variables) as plain Lean data
//
// The translator refuses anything outside its subset; a refusal is a failed obligation.

import (
	"fmt"
	"go/ast"
	"go/importer"
	"go/parser"
	"go/token"
	"go/types"
	"os"
	"path/filepath"
	"sort"
	"strings"
)

type pkgInfo struct {
	fset  *token.FileSet
	files []*ast.File
	info  *types.Info
	pkg   *types.Package
	funcs map[string]*ast.FuncDecl // "Recv.Name" or "Name"
}

func loadPkg(repo, rel, path string, tiny bool) (*pkgInfo, error) {
	dir := filepath.Join(repo, rel)
	fset := token.NewFileSet()
	pkgs, err := parser.ParseDir(fset, dir, func(fi os.FileInfo) bool {
		n := fi.Name()
		if strings.HasSuffix(n, "_test.go") || n == "verif_hooks.go" || n == "query_debug.go" {
			return false
		}
		if tiny && n == "bitmask.go" {
			return false
		}
		if !tiny && n == "bitmask_tiny.go" {
			return false
		}
		return true
	}, parser.ParseComments)
	if err != nil {
		return nil, err
	}
	p := &pkgInfo{fset: fset, funcs: map[string]*ast.FuncDecl{}}
	names := []string{}
	for _, pk := range pkgs {
		if strings.HasSuffix(pk.Name, "_test") {
			continue
		}
		for n := range pk.Files {
			names = append(names, n)
		}
		sort.Strings(names)
		for _, n := range names {
			p.files = append(p.files, pk.Files[n])
		}
	}
	var terrs []string
	conf := types.Config{Importer: importer.ForCompiler(fset, "source", nil), Error: func(err error) { terrs = append(terrs, err.Error()) }}
	p.info = &types.Info{Types: map[ast.Expr]types.TypeAndValue{}, Uses: map[*ast.Ident]types.Object{}, Defs: map[*ast.Ident]types.Object{}, Selections: map[*ast.SelectorExpr]*types.Selection{}}
	p.pkg, _ = conf.Check(path, fset, p.files, p.info)
	if len(terrs) > 0 {
		return nil, fmt.Errorf("type errors in %s: %s", path, strings.Join(terrs, "; "))
	}
	for _, f := range p.files {
		for _, d := range f.Decls {
			fd, ok := d.(*ast.FuncDecl)
			if !ok {
				continue
			}
			name := fd.Name.Name
			if fd.Recv != nil && len(fd.Recv.List) == 1 {
				rt := fd.Recv.List[0].Type
				if s, ok := rt.(*ast.StarExpr); ok {
					rt = s.X
				}
				if ix, ok := rt.(*ast.IndexExpr); ok {
					rt = ix.X
				}
				if id, ok := rt.(*ast.Ident); ok {
					name = id.Name + "." + name
				}
			}
			p.funcs[name] = fd
		}
	}
	return p, nil
}

type emitter struct {
	sb   strings.Builder
	errs []string
}

// emitFunc translates one function. leanName is the Lean definition name; optional lists
// pointer parameters that may be nil.
func (e *emitter) emitFunc(p *pkgInfo, goName, leanName string, tiny bool, optional []string) {
	fd, ok := p.funcs[goName]
	if !ok {
		e.errs = append(e.errs, "function not found: "+goName)
		return
	}
	t := &tr{info: p.info, maskTiny: tiny, optional: map[string]bool{}}
	for _, o := range optional {
		t.optional[o] = true
	}
	params := []string{}
	recvName, recvType := "", ""
	if fd.Recv != nil {
		r := fd.Recv.List[0]
		recvName = r.Names[0].Name
		recvType = t.leanType(t.typeOf(r.Type))
		params = append(params, fmt.Sprintf("(%s : %s)", recvName, recvType))
	}
	for _, f := range fd.Type.Params.List {
		tp := t.typeOf(f.Type)
		lt := t.leanType(tp)
		if el, ok := f.Type.(*ast.Ellipsis); ok {
			lt = "List (" + t.leanType(t.typeOf(el.Elt)) + ")"
		}
		for _, n := range f.Names {
			if t.optional[n.Name] {
				params = append(params, fmt.Sprintf("(%s : Option (%s))", n.Name, lt))
			} else {
				params = append(params, fmt.Sprintf("(%s : %s)", n.Name, lt))
			}
		}
	}
	ret := ""
	end := "()"
	if fd.Type.Results != nil && len(fd.Type.Results.List) == 1 {
		ret = t.leanType(t.typeOf(fd.Type.Results.List[0].Type))
	} else if fd.Type.Results == nil && recvName != "" {
		ret = recvType // mutating method: yields the updated receiver
		end = recvName
	} else {
		e.errs = append(e.errs, "unsupported signature: "+goName)
		return
	}
	body := t.stmts(fd.Body.List, end, "  ")
	pos := p.fset.Position(fd.Pos())
	fmt.Fprintf(&e.sb, "/-- %s:%d `%s` -/\ndef %s %s : %s :=\n  %s\n\n", relPath(pos.Filename), pos.Line, goName, leanName, strings.Join(params, " "), ret, body)
	for _, er := range t.errs {
		e.errs = append(e.errs, goName+": "+er)
	}
}

// emitArm translates a Matches method into one arm of F.Matches.
func (e *emitter) emitArm(p *pkgInfo, goName, pattern string, tiny bool) {
	fd, ok := p.funcs[goName]
	if !ok {
		e.errs = append(e.errs, "function not found: "+goName)
		return
	}
	t := &tr{info: p.info, maskTiny: tiny, optional: map[string]bool{}}
	body := t.stmts(fd.Body.List, "()", "      ")
	pos := p.fset.Position(fd.Pos())
	fmt.Fprintf(&e.sb, "  -- %s:%d %s\n  | %s, %s =>\n      %s\n", relPath(pos.Filename), pos.Line, goName, pattern, fd.Type.Params.List[0].Names[0].Name, body)
	for _, er := range t.errs {
		e.errs = append(e.errs, goName+": "+er)
	}
}

var repoRoot string

func relPath(p string) string {
	r, err := filepath.Rel(repoRoot, p)
	if err != nil {
		return p
	}
	return r
}

func recvName(fd *ast.FuncDecl) string { return fd.Recv.List[0].Names[0].Name }

func genBuild(repo string, tiny bool) (string, []string) {
	ecs, err := loadPkg(repo, "ecs", "github.com/mlange-42/arche/ecs", tiny)
	if err != nil {
		return "", []string{err.Error()}
	}
	ev, err := loadPkg(repo, "ecs/event", "github.com/mlange-42/arche/ecs/event", tiny)
	if err != nil {
		return "", []string{err.Error()}
	}
	lst, err := loadPkg(repo, "listener", "github.com/mlange-42/arche/listener", tiny)
	if err != nil {
		return "", []string{err.Error()}
	}
	flt, err := loadPkg(repo, "filter", "github.com/mlange-42/arche/filter", tiny)
	if err != nil {
		return "", []string{err.Error()}
	}
	e := &emitter{}
	ns := "ArcheGen.M256"
	if tiny {
		ns = "ArcheGen.M64"
	}
	fmt.Fprintf(&e.sb, "/- GENERATED by /verif/extract from the Go source of /repo — do not edit. -/\nimport ArcheModel.GenPrelude\nset_option linter.unusedVariables false\nnamespace %s\nopen ArcheGen\n\n", ns)
	// constants
	for _, c := range []string{"MaskTotalBits", "wordSize"} {
		if o := ecs.pkg.Scope().Lookup(c); o != nil {
			if k, ok := o.(*types.Const); ok {
				fmt.Fprintf(&e.sb, "def %s : Nat := %s\n", c, k.Val().ExactString())
			}
		}
	}
	if tiny {
		e.sb.WriteString("\nstructure Mask where\n  bits : BitVec 64\nderiving DecidableEq, Repr, Inhabited\n\n")
	} else {
		e.sb.WriteString("\nstructure Mask where\n  b0 : BitVec 64\n  b1 : BitVec 64\n  b2 : BitVec 64\n  b3 : BitVec 64\nderiving DecidableEq, Repr, Inhabited\n\n")
		e.sb.WriteString("/-- `b.bits[i]` for a computed index (Go panics for `i ≥ 4`; the callers compute `i = id / 64`). -/\ndef Mask.word (m : Mask) (i : BitVec 8) : BitVec 64 :=\n  if i == 0#8 then m.b0 else if i == 1#8 then m.b1 else if i == 2#8 then m.b2 else m.b3\n\n")
		e.sb.WriteString("def Mask.setWord (m : Mask) (i : BitVec 8) (v : BitVec 64) : Mask :=\n  if i == 0#8 then { m with b0 := v } else if i == 1#8 then { m with b1 := v } else if i == 2#8 then { m with b2 := v } else { m with b3 := v }\n\n")
	}
	e.sb.WriteString("structure MaskFilter where\n  Include : Mask\n  Exclude : Mask\nderiving DecidableEq, Repr, Inhabited\n\n")
	for _, m := range []string{"Get", "Set", "Not", "IsZero", "Reset", "Contains", "ContainsAny", "And", "Or", "Xor", "TotalBitsSet"} {
		e.emitFunc(ecs, "Mask."+m, "Mask."+m, tiny, nil)
	}
	e.emitFunc(ecs, "All", "All", tiny, nil)
	e.emitFunc(ecs, "Mask.Without", "Mask.Without", tiny, nil)
	e.emitFunc(ecs, "Mask.Exclusive", "Mask.Exclusive", tiny, nil)
	// event.Subscription
	e.emitFunc(ev, "Subscription.Contains", "Subscription.Contains", tiny, nil)
	e.emitFunc(ev, "Subscription.ContainsAny", "Subscription.ContainsAny", tiny, nil)
	for _, c := range []string{"EntityCreated", "EntityRemoved", "ComponentAdded", "ComponentRemoved", "RelationChanged", "TargetChanged", "Entities", "Components", "Relations", "All"} {
		if o := ev.pkg.Scope().Lookup(c); o != nil {
			if k, ok := o.(*types.Const); ok {
				fmt.Fprintf(&e.sb, "def event.%s : BitVec 8 := %s#8\n", c, k.Val().ExactString())
			}
		}
	}
	e.sb.WriteString("\n")
	e.emitFunc(ecs, "subscription", "subscription", tiny, nil)
	opt := []string{"added", "removed", "subs", "oldRel", "newRel"}
	e.emitFunc(ecs, "subscribes", "subscribes", tiny, opt)
	e.emitFunc(lst, "subscribes", "listener.subscribes", tiny, opt)
	// filters as an inductive type + Matches by structural recursion
	e.sb.WriteString("/-- All types implementing `ecs.Filter` in packages ecs and filter. -/\ninductive F where\n  | mask (b : Mask)\n  | maskFilter (f : MaskFilter)\n  | relation (f_Filter : F) (targetId targetGen : Nat)\n  | cached (f_filter : F) (id : Nat)\n  | ANY (f : Mask)\n  | NoneOF (f : Mask)\n  | AnyNOT (f : Mask)\n  | AND (f_L f_R : F)\n  | OR (f_L f_R : F)\n  | XOR (f_L f_R : F)\n  | NOT (f_F : F)\nderiving Repr, Inhabited\n\n")
	e.emitFunc(ecs, "MaskFilter.Matches", "MaskFilter.Matches", tiny, nil)
	e.sb.WriteString("def F.Matches : F → Mask → Bool\n")
	e.emitArm(ecs, "Mask.Matches", ".mask b", tiny)
	e.emitArm(ecs, "MaskFilter.Matches", ".maskFilter f", tiny)
	e.emitArm(ecs, "RelationFilter.Matches", ".relation f_Filter _ _", tiny)
	e.emitArm(ecs, "CachedFilter.Matches", ".cached f_filter _", tiny)
	e.emitArm(flt, "ANY.Matches", ".ANY f", tiny)
	e.emitArm(flt, "NoneOF.Matches", ".NoneOF f", tiny)
	e.emitArm(flt, "AnyNOT.Matches", ".AnyNOT f", tiny)
	e.emitArm(flt, "AND.Matches", ".AND f_L f_R", tiny)
	e.emitArm(flt, "OR.Matches", ".OR f_L f_R", tiny)
	e.emitArm(flt, "XOR.Matches", ".XOR f_L f_R", tiny)
	e.emitArm(flt, "NOT.Matches", ".NOT f_F", tiny)
	fmt.Fprintf(&e.sb, "\nend %s\n", ns)
	return e.sb.String(), e.errs
}

func genArith(repo string) (string, []string) {
	ecs, err := loadPkg(repo, "ecs", "github.com/mlange-42/arche/ecs", false)
	if err != nil {
		return "", []string{err.Error()}
	}
	e := &emitter{}
	e.sb.WriteString("/- GENERATED by /verif/extract from the Go source of /repo — do not edit. -/\nimport ArcheModel.GenPrelude\nset_option linter.unusedVariables false\nnamespace ArcheGen.Arith\n\n")
	for _, c := range []string{"layoutChunkSize", "idMapChunkSize", "pageSize", "wordSize"} {
		if o := ecs.pkg.Scope().Lookup(c); o != nil {
			if k, ok := o.(*types.Const); ok {
				fmt.Fprintf(&e.sb, "def %s : Nat := %s\n", c, k.Val().ExactString())
			}
		}
	}
	e.sb.WriteString("\n")
	for _, f := range []string{"capacity", "capacityNonZero", "capacityU32"} {
		e.emitFunc(ecs, f, f, false, nil)
	}
	e.sb.WriteString("end ArcheGen.Arith\n")
	return e.sb.String(), e.errs
}

func writeIfChanged(path, content string) {
	old, err := os.ReadFile(path)
	if err == nil && string(old) == content {
		return
	}
	os.WriteFile(path, []byte(content), 0o644)
}

func main() {
	if len(os.Args) < 3 {
		fmt.Fprintln(os.Stderr, "usage: extract <repo> <outdir>")
		os.Exit(2)
	}
	repo, out := os.Args[1], os.Args[2]
	repoRoot = repo
	os.Chdir(repo)
	os.Setenv("GOFLAGS", "")
	os.Setenv("GOWORK", "")
	os.MkdirAll(out, 0o755)
	allErrs := []string{}
	gens := map[string]func() (string, []string){
		"Build256.lean": func() (string, []string) { return genBuild(repo, false) },
		"Build64.lean":  func() (string, []string) { return genBuild(repo, true) },
		"Arith.lean":    func() (string, []string) { return genArith(repo) },
		"Facts.lean":    func() (string, []string) { return genFacts(repo) },
		"Pool256.lean":  func() (string, []string) { return genPools(repo, false) },
		"Pool64.lean":   func() (string, []string) { return genPools(repo, true) },
		"Lst256.lean":   func() (string, []string) { return genDispatch(repo, false) },
		"Lst64.lean":    func() (string, []string) { return genDispatch(repo, true) },
		"Node256.lean":  func() (string, []string) { return genNode(repo, false) },
		"Node64.lean":   func() (string, []string) { return genNode(repo, true) },
		"Gen256.lean":   func() (string, []string) { return genGeneric(repo, false) },
		"Gen64.lean":    func() (string, []string) { return genGeneric(repo, true) },
	}
	names := []string{}
	for n := range gens {
		names = append(names, n)
	}
	sort.Strings(names)
	for _, n := range names {
		src, errs := gens[n]()
		path := filepath.Join(out, n)
		if len(errs) > 0 {
			for _, e := range errs {
				allErrs = append(allErrs, n+": "+e)
			}
			// leave a file that cannot be mistaken for a successful translation
			writeIfChanged(path, "/- GENERATION FAILED:\n"+strings.Join(errs, "\n")+"\n-/\n#exit\n"+src)
			os.WriteFile(path, []byte("/- GENERATION FAILED:\n"+strings.Join(errs, "\n")+"\n-/\nexample : False := by generation_failed\n"), 0o644)
			continue
		}
		writeIfChanged(path, src)
	}
	if len(allErrs) > 0 {
		fmt.Println("TRANSLATION ERRORS:")
		for _, e := range allErrs {
			fmt.Println("  " + e)
		}
		os.Exit(1)
	}
	fmt.Println("regenerated", strings.Join(names, " "))
}
