package main

// Fact extractor: plain data about the Go source that the proofs take as hypotheses and
// discharge by `decide` against hand-written expectation tables.

import (
	"bytes"
	"fmt"
	"go/ast"
	"go/printer"
	"go/token"
	"go/types"
	"sort"
	"strings"
)

func bitsOf(tp types.Type) int {
	b, ok := tp.Underlying().(*types.Basic)
	if !ok {
		return 0
	}
	switch b.Kind() {
	case types.Uint8, types.Int8:
		return 8
	case types.Uint16, types.Int16:
		return 16
	case types.Uint32, types.Int32:
		return 32
	case types.Uint64, types.Int64, types.Int, types.Uint:
		return 64
	}
	return 0
}

func leanStr(s string) string {
	return "\"" + strings.ReplaceAll(strings.ReplaceAll(s, "\\", "\\\\"), "\"", "\\\"") + "\""
}

func structFieldBits(p *pkgInfo, typeName, field string) int {
	o := p.pkg.Scope().Lookup(typeName)
	if o == nil {
		return 0
	}
	st, ok := o.Type().Underlying().(*types.Struct)
	if !ok {
		return 0
	}
	for i := 0; i < st.NumFields(); i++ {
		if st.Field(i).Name() == field {
			t := st.Field(i).Type()
			if a, ok := t.(*types.Array); ok {
				return bitsOf(a.Elem())
			}
			return bitsOf(t)
		}
	}
	return 0
}

func paramBits(p *pkgInfo, fn, param string) int {
	fd, ok := p.funcs[fn]
	if !ok {
		return 0
	}
	for _, f := range fd.Type.Params.List {
		for _, n := range f.Names {
			if n.Name == param {
				return bitsOf(p.info.Types[f.Type].Type)
			}
		}
	}
	return 0
}

// conversionsIn lists integer conversions `T(expr)` inside a function whose argument mentions
// one of the given identifiers; returns "T<bits>" entries.
func conversionsIn(p *pkgInfo, fn string, idents ...string) []int {
	fd, ok := p.funcs[fn]
	res := []int{}
	if !ok {
		return res
	}
	ast.Inspect(fd.Body, func(n ast.Node) bool {
		call, ok := n.(*ast.CallExpr)
		if !ok || len(call.Args) != 1 {
			return true
		}
		tv, ok := p.info.Types[call.Fun]
		if !ok || !tv.IsType() {
			return true
		}
		mentions := false
		ast.Inspect(call.Args[0], func(m ast.Node) bool {
			if id, ok := m.(*ast.Ident); ok {
				for _, x := range idents {
					if id.Name == x {
						mentions = true
					}
				}
			}
			return true
		})
		if mentions {
			if b := bitsOf(tv.Type); b > 0 {
				res = append(res, b)
			}
		}
		return true
	})
	return res
}

// guard analysis: does every path through the function call checkLocked (directly or through a
// guarded callee) — at the top level of the body, or in all branches of a top-level if/else?
func guardedFuncs(p *pkgInfo) map[string]bool {
	g := map[string]bool{}
	calleeName := func(call *ast.CallExpr) string {
		switch f := call.Fun.(type) {
		case *ast.SelectorExpr:
			if sel, ok := p.info.Selections[f]; ok {
				if fn, ok := sel.Obj().(*types.Func); ok {
					recv := fn.Type().(*types.Signature).Recv()
					if recv != nil {
						rt := recv.Type()
						if pt, ok := rt.(*types.Pointer); ok {
							rt = pt.Elem()
						}
						if n, ok := rt.(*types.Named); ok {
							return n.Obj().Name() + "." + fn.Name()
						}
					}
				}
			}
			return f.Sel.Name
		case *ast.Ident:
			return f.Name
		}
		return ""
	}
	// status of a statement list: 2 = every path is guarded before it leaves the list (or panics),
	// 1 = some path returns unguarded, 0 = falls through unguarded
	const (
		cont = 0
		bad  = 1
		good = 2
	)
	var exprGuarded func(e ast.Expr) bool
	exprGuarded = func(e ast.Expr) bool {
		found := false
		ast.Inspect(e, func(n ast.Node) bool {
			if _, ok := n.(*ast.FuncLit); ok {
				return false
			}
			if call, ok := n.(*ast.CallExpr); ok {
				name := calleeName(call)
				if name == "World.checkLocked" || g[name] {
					found = true
				}
			}
			return true
		})
		return found
	}
	isPanic := func(s ast.Stmt) bool {
		if es, ok := s.(*ast.ExprStmt); ok {
			if call, ok := es.X.(*ast.CallExpr); ok {
				if id, ok := call.Fun.(*ast.Ident); ok && id.Name == "panic" {
					return true
				}
			}
		}
		return false
	}
	var eval func(list []ast.Stmt) int
	eval = func(list []ast.Stmt) int {
		for _, s := range list {
			if isPanic(s) {
				return good
			}
			switch x := s.(type) {
			case *ast.ExprStmt:
				if exprGuarded(x.X) {
					return good
				}
			case *ast.AssignStmt:
				for _, r := range x.Rhs {
					if exprGuarded(r) {
						return good
					}
				}
			case *ast.ReturnStmt:
				for _, r := range x.Results {
					if exprGuarded(r) {
						return good
					}
				}
				return bad
			case *ast.IfStmt:
				th := eval(x.Body.List)
				el := cont
				switch e := x.Else.(type) {
				case *ast.BlockStmt:
					el = eval(e.List)
				case *ast.IfStmt:
					el = eval([]ast.Stmt{e})
				}
				if th == bad || el == bad {
					return bad
				}
				if th == good && el == good {
					return good
				}
			case *ast.ForStmt, *ast.RangeStmt, *ast.SwitchStmt, *ast.TypeSwitchStmt:
				unguardedReturn := false
				ast.Inspect(x, func(n ast.Node) bool {
					if _, ok := n.(*ast.ReturnStmt); ok {
						unguardedReturn = true
					}
					return true
				})
				if unguardedReturn {
					return bad
				}
			}
		}
		return cont
	}
	stmtsGuarded := func(list []ast.Stmt) bool { return eval(list) == good }
	for changed := true; changed; {
		changed = false
		for name, fd := range p.funcs {
			if g[name] || fd.Body == nil {
				continue
			}
			if stmtsGuarded(fd.Body.List) {
				g[name] = true
				changed = true
			}
		}
	}
	return g
}

func exportedAPI(p *pkgInfo, types_ []string) []string {
	res := []string{}
	for name, fd := range p.funcs {
		if !fd.Name.IsExported() {
			continue
		}
		if fd.Recv == nil {
			res = append(res, name)
			continue
		}
		for _, t := range types_ {
			if strings.HasPrefix(name, t+".") {
				res = append(res, name)
			}
		}
	}
	sort.Strings(res)
	return res
}

func mapRanges(p *pkgInfo, label string) []string {
	res := []string{}
	for _, f := range p.files {
		ast.Inspect(f, func(n ast.Node) bool {
			rs, ok := n.(*ast.RangeStmt)
			if !ok {
				return true
			}
			if tv, ok := p.info.Types[rs.X]; ok {
				if _, isMap := tv.Type.Underlying().(*types.Map); isMap {
					pos := p.fset.Position(rs.Pos())
					res = append(res, fmt.Sprintf("%s:%s:%d", label, relPath(pos.Filename), pos.Line))
				}
			}
			return true
		})
	}
	sort.Strings(res)
	return res
}

// pkgVars lists package-level variables and every statement that assigns one or takes its address.
func pkgVars(p *pkgInfo, label string) (vars []string, writes []string) {
	objs := map[types.Object]string{}
	for _, f := range p.files {
		for _, d := range f.Decls {
			gd, ok := d.(*ast.GenDecl)
			if !ok || gd.Tok != token.VAR {
				continue
			}
			for _, sp := range gd.Specs {
				vs := sp.(*ast.ValueSpec)
				for _, n := range vs.Names {
					if n.Name == "_" {
						continue
					}
					o := p.info.Defs[n]
					objs[o] = label + "." + n.Name
					vars = append(vars, label+"."+n.Name)
				}
			}
		}
	}
	root := func(e ast.Expr) types.Object {
		for {
			switch x := e.(type) {
			case *ast.Ident:
				return p.info.Uses[x]
			case *ast.SelectorExpr:
				if id, ok := x.X.(*ast.Ident); ok {
					if _, isPkg := p.info.Uses[id].(*types.PkgName); isPkg {
						return p.info.Uses[x.Sel]
					}
				}
				e = x.X
			case *ast.IndexExpr:
				e = x.X
			case *ast.ParenExpr:
				e = x.X
			case *ast.StarExpr:
				e = x.X
			default:
				return nil
			}
		}
	}
	for _, f := range p.files {
		for _, d := range f.Decls {
			fd, ok := d.(*ast.FuncDecl)
			if !ok || fd.Body == nil {
				continue
			}
			ast.Inspect(fd.Body, func(n ast.Node) bool {
				switch x := n.(type) {
				case *ast.AssignStmt:
					if x.Tok == token.DEFINE {
						return true
					}
					for _, l := range x.Lhs {
						if o := root(l); o != nil {
							if name, ok := objs[o]; ok {
								pos := p.fset.Position(x.Pos())
								writes = append(writes, fmt.Sprintf("%s|assigned|%s:%d", name, relPath(pos.Filename), pos.Line))
							}
						}
					}
				case *ast.IncDecStmt:
					if o := root(x.X); o != nil {
						if name, ok := objs[o]; ok {
							pos := p.fset.Position(x.Pos())
							writes = append(writes, fmt.Sprintf("%s|assigned|%s:%d", name, relPath(pos.Filename), pos.Line))
						}
					}
				case *ast.UnaryExpr:
					if x.Op == token.AND {
						if o := root(x.X); o != nil {
							if name, ok := objs[o]; ok {
								pos := p.fset.Position(x.Pos())
								writes = append(writes, fmt.Sprintf("%s|address-taken|%s:%d", name, relPath(pos.Filename), pos.Line))
							}
						}
					}
				}
				return true
			})
		}
	}
	sort.Strings(vars)
	sort.Strings(writes)
	return
}

func strList(l []string) string {
	if len(l) == 0 {
		return "[]"
	}
	q := make([]string, len(l))
	for i, s := range l {
		q[i] = leanStr(s)
	}
	return "[\n  " + strings.Join(q, ",\n  ") + "]"
}

func genFacts(repo string) (string, []string) {
	var sb strings.Builder
	errs := []string{}
	sb.WriteString("/- GENERATED by /verif/extract from the Go source of /repo — do not edit. -/\nnamespace ArcheGen.Facts\n\n")
	for _, tiny := range []bool{false, true} {
		ecs, err := loadPkg(repo, "ecs", "github.com/mlange-42/arche/ecs", tiny)
		if err != nil {
			return "", []string{err.Error()}
		}
		sfx := ""
		if tiny {
			sfx = "Tiny"
		}
		if o, ok := ecs.pkg.Scope().Lookup("MaskTotalBits").(*types.Const); ok {
			fmt.Fprintf(&sb, "def maskTotalBits%s : Nat := %s\n", sfx, o.Val().ExactString())
		}
		if tiny {
			continue
		}
		if o, ok := ecs.pkg.Scope().Lookup("layoutChunkSize").(*types.Const); ok {
			fmt.Fprintf(&sb, "def layoutChunkSize : Nat := %s\n", o.Val().ExactString())
		}
		// widths
		fmt.Fprintf(&sb, "\n-- integer widths (bits) through which the lock count and the layout count flow\n")
		fmt.Fprintf(&sb, "def bitPoolAvailableBits : Nat := %d\n", structFieldBits(ecs, "bitPool", "available"))
		fmt.Fprintf(&sb, "def bitPoolLengthBits : Nat := %d\n", structFieldBits(ecs, "bitPool", "length"))
		fmt.Fprintf(&sb, "def bitPoolNextBits : Nat := %d\n", structFieldBits(ecs, "bitPool", "next"))
		fmt.Fprintf(&sb, "def bitPoolBitsElemBits : Nat := %d\n", structFieldBits(ecs, "bitPool", "bits"))
		fmt.Fprintf(&sb, "def entityGenBits : Nat := %d\n", structFieldBits(ecs, "Entity", "gen"))
		widths := [][2]string{{"archetype.Init", "layouts"}, {"archNode.CreateArchetype", "layouts"}, {"archetype.ExtendLayouts", "count"},
			{"archNode.ExtendArchetypeLayouts", "count"}, {"World.extendArchetypeLayouts", "count"}}
		sb.WriteString("def layoutCountParamBits : List (String × Nat) := [\n")
		for i, w := range widths {
			b := paramBits(ecs, w[0], w[1])
			if b == 0 {
				errs = append(errs, "width not found: "+w[0]+"."+w[1])
			}
			sep := ","
			if i == len(widths)-1 {
				sep = ""
			}
			fmt.Fprintf(&sb, "  (%s, %d)%s\n", leanStr(w[0]+"."+w[1]), b, sep)
		}
		sb.WriteString("]\n")
		conv := append(conversionsIn(ecs, "World.createArchetype", "layouts"), conversionsIn(ecs, "World.componentID", "id", "layoutChunkSize")...)
		cs := make([]string, len(conv))
		for i, c := range conv {
			cs[i] = fmt.Sprint(c)
		}
		fmt.Fprintf(&sb, "/-- widths of the integer conversions applied to the layout count in createArchetype / componentID -/\ndef layoutCountConversionBits : List Nat := [%s]\n\n", strings.Join(cs, ", "))
		// API surface and guards
		g := guardedFuncs(ecs)
		api := exportedAPI(ecs, []string{"World", "Batch", "Relations", "Builder", "Cache", "Resources", "Query"})
		sb.WriteString("/-- exported API of package ecs with its lock-guard verdict: `true` = every path calls checkLocked (directly or through a guarded callee) -/\ndef apiGuards : List (String × Bool) := [\n")
		for i, a := range api {
			sep := ","
			if i == len(api)-1 {
				sep = ""
			}
			fmt.Fprintf(&sb, "  (%s, %v)%s\n", leanStr(a), g[a], sep)
		}
		sb.WriteString("]\n\n")
		fmt.Fprintf(&sb, "/-- `componentID` unregisters and panics when a new type is registered in a locked world -/\ndef componentIDChecksLock : Bool := %v\n\n", funcMentions(ecs, "World.componentID", "IsLocked") && funcMentions(ecs, "World.componentID", "unregisterLastComponent"))
		// the lock mask: bodies of the three small functions that tie the lock bits to the Mask operations
		sb.WriteString("/-- statements of `lockMask.Lock / Unlock / IsLocked / Reset` and `World.lock / unlock / IsLocked / checkLocked` (gofmt-printed, one string per statement) -/\ndef lockMaskBodies : List (String × List String) := [\n")
		lm := []string{"lockMask.Lock", "lockMask.Unlock", "lockMask.IsLocked", "lockMask.Reset", "World.lock", "World.unlock", "World.IsLocked", "World.checkLocked"}
		for i, fn := range lm {
			sep := ","
			if i == len(lm)-1 {
				sep = ""
			}
			fmt.Fprintf(&sb, "  (%s, %s)%s\n", leanStr(fn), strList(funcStmts(ecs, fn)), sep)
		}
		sb.WriteString("]\n\n")
	}
	// map ranges and package variables over all non-test packages
	ranges := []string{}
	vars := []string{}
	writes := []string{}
	for _, pk := range [][2]string{{"ecs", "github.com/mlange-42/arche/ecs"}, {"ecs/event", "github.com/mlange-42/arche/ecs/event"},
		{"ecs/stats", "github.com/mlange-42/arche/ecs/stats"}, {"filter", "github.com/mlange-42/arche/filter"},
		{"listener", "github.com/mlange-42/arche/listener"}, {"generic", "github.com/mlange-42/arche/generic"}} {
		p, err := loadPkg(repo, pk[0], pk[1], false)
		if err != nil {
			return "", []string{err.Error()}
		}
		ranges = append(ranges, mapRanges(p, pk[0])...)
		v, w := pkgVars(p, pk[0])
		vars = append(vars, v...)
		writes = append(writes, w...)
	}
	fmt.Fprintf(&sb, "/-- every `range` over a map-typed operand in non-test code -/\ndef mapRanges : List String := %s\n\n", strList(ranges))
	fmt.Fprintf(&sb, "/-- package-level variables of the non-test code -/\ndef pkgVars : List String := %s\n\n", strList(vars))
	sb.WriteString("/-- every statement that assigns a package-level variable or takes its address (outside its declaration): (variable, kind, location) -/\ndef pkgVarWrites : List (String × String × String) := [")
	for i, w := range writes {
		p := strings.SplitN(w, "|", 3)
		sep := ","
		if i == len(writes)-1 {
			sep = ""
		}
		fmt.Fprintf(&sb, "\n  (%s, %s, %s)%s", leanStr(p[0]), leanStr(p[1]), leanStr(p[2]), sep)
	}
	sb.WriteString("]\n\n")
	gen, gerrs := genericFacts(repo)
	errs = append(errs, gerrs...)
	sb.WriteString(gen)
	sb.WriteString("end ArcheGen.Facts\n")
	return sb.String(), errs
}

// funcStmts prints the top-level statements of a function body, one string each (whitespace
// normalised); a missing function yields ["<missing>"]
func funcStmts(p *pkgInfo, fn string) []string {
	fd, ok := p.funcs[fn]
	if !ok || fd.Body == nil {
		return []string{"<missing>"}
	}
	res := []string{}
	for _, st := range fd.Body.List {
		var buf bytes.Buffer
		printer.Fprint(&buf, token.NewFileSet(), st)
		res = append(res, strings.Join(strings.Fields(buf.String()), " "))
	}
	return res
}

func funcMentions(p *pkgInfo, fn, ident string) bool {
	fd, ok := p.funcs[fn]
	if !ok {
		return false
	}
	found := false
	ast.Inspect(fd.Body, func(n ast.Node) bool {
		if id, ok := n.(*ast.Ident); ok && id.Name == ident {
			found = true
		}
		return true
	})
	return found
}
