package main

// Expression/statement translator: a small, deliberately strict Go → Lean translator for
// straight-line integer code (the subset listed in DESIGN.md §4.1). Anything outside the
// subset makes the translator fail (a broken obligation), never a silent default.

import (
	"fmt"
	"go/ast"
	"go/constant"
	"go/token"
	"go/types"
	"strings"
)

type tr struct {
	info     *types.Info
	maskTiny bool            // Mask is `bits uint64` instead of `bits [4]uint64`
	optional map[string]bool // pointer parameters that may be nil (translated as Option)
	mutated  string          // name of the receiver variable when the method mutates it
	pkgName  string
	errs     []string
}

func (t *tr) fail(n ast.Node, format string, a ...interface{}) string {
	t.errs = append(t.errs, fmt.Sprintf(format, a...))
	return "sorryUnsupported"
}

// leanType renders a Go type.
func (t *tr) leanType(tp types.Type) string {
	switch u := tp.(type) {
	case *types.Basic:
		switch u.Kind() {
		case types.Uint8:
			return "BitVec 8"
		case types.Uint16:
			return "BitVec 16"
		case types.Uint32:
			return "BitVec 32"
		case types.Uint64:
			return "BitVec 64"
		case types.Int, types.UntypedInt:
			return "Int"
		case types.Bool, types.UntypedBool:
			return "Bool"
		}
	case *types.Named:
		n := u.Obj().Name()
		switch n {
		case "ID":
			return "BitVec 8"
		case "Subscription":
			return "BitVec 8"
		case "Mask":
			return "Mask"
		case "MaskFilter":
			return "MaskFilter"
		case "ANY", "NoneOF", "AnyNOT":
			return "Mask"
		}
		return t.leanType(u.Underlying())
	case *types.Pointer:
		return t.leanType(u.Elem())
	case *types.Slice:
		return "List (" + t.leanType(u.Elem()) + ")"
	}
	return "UNSUPPORTED_TYPE_" + strings.ReplaceAll(tp.String(), " ", "_")
}

func isInt(tp types.Type) bool {
	b, ok := tp.Underlying().(*types.Basic)
	return ok && (b.Kind() == types.Int || b.Kind() == types.UntypedInt)
}

func isBV(tp types.Type) (int, bool) {
	if n, ok := tp.(*types.Named); ok && n.Obj().Name() == "ID" {
		return 8, true
	}
	b, ok := tp.Underlying().(*types.Basic)
	if !ok {
		return 0, false
	}
	switch b.Kind() {
	case types.Uint8:
		return 8, true
	case types.Uint16:
		return 16, true
	case types.Uint32:
		return 32, true
	case types.Uint64:
		return 64, true
	}
	return 0, false
}

func (t *tr) typeOf(e ast.Expr) types.Type {
	if tv, ok := t.info.Types[e]; ok {
		return tv.Type
	}
	if id, ok := e.(*ast.Ident); ok {
		if o := t.info.Uses[id]; o != nil {
			return o.Type()
		}
		if o := t.info.Defs[id]; o != nil {
			return o.Type()
		}
	}
	return types.Typ[types.Invalid]
}

func (t *tr) constLit(v constant.Value, tp types.Type) string {
	if b, ok := tp.Underlying().(*types.Basic); ok && (b.Kind() == types.Bool || b.Kind() == types.UntypedBool) {
		if constant.BoolVal(v) {
			return "true"
		}
		return "false"
	}
	if w, ok := isBV(tp); ok {
		return fmt.Sprintf("%s#%d", v.ExactString(), w)
	}
	if isInt(tp) {
		return fmt.Sprintf("(%s : Int)", v.ExactString())
	}
	return "UNSUPPORTED_CONST"
}

func (t *tr) isOptional(e ast.Expr) bool {
	if id, ok := e.(*ast.Ident); ok {
		return t.optional[id.Name]
	}
	return false
}

// val renders an expression whose Go type is a pointer or value of a modelled type, as the value.
func (t *tr) val(e ast.Expr) string {
	switch x := e.(type) {
	case *ast.UnaryExpr:
		if x.Op == token.AND {
			return t.expr(x.X)
		}
	case *ast.StarExpr:
		if t.isOptional(x.X) {
			return "(" + t.expr(x.X) + ".getD default)"
		}
		return t.expr(x.X)
	case *ast.Ident:
		if t.optional[x.Name] {
			return "(" + x.Name + ".getD default)"
		}
	}
	return t.expr(e)
}

func (t *tr) expr(e ast.Expr) string {
	if tv, ok := t.info.Types[e]; ok && tv.Value != nil {
		return t.constLit(tv.Value, tv.Type)
	}
	switch x := e.(type) {
	case *ast.ParenExpr:
		return "(" + t.expr(x.X) + ")"
	case *ast.Ident:
		if x.Name == "true" || x.Name == "false" {
			return x.Name
		}
		return x.Name
	case *ast.SelectorExpr:
		// field access
		base := t.typeOf(x.X)
		if p, ok := base.(*types.Pointer); ok {
			base = p.Elem()
		}
		if n, ok := base.(*types.Named); ok {
			switch n.Obj().Name() {
			case "ID":
				if x.Sel.Name == "id" {
					return t.val(x.X)
				}
			case "Mask":
				if x.Sel.Name == "bits" && t.maskTiny {
					return t.val(x.X) + ".bits"
				}
			case "MaskFilter":
				return t.val(x.X) + "." + x.Sel.Name
			case "AND", "OR", "XOR", "NOT", "RelationFilter", "CachedFilter":
				return t.val(x.X) + "_" + x.Sel.Name
			}
		}
		return t.fail(e, "unsupported selector %s", types.ExprString(e))
	case *ast.IndexExpr:
		// b.bits[i] on the 4-word mask
		if sel, ok := x.X.(*ast.SelectorExpr); ok && sel.Sel.Name == "bits" && !t.maskTiny {
			recv := t.val(sel.X)
			if tv, ok := t.info.Types[x.Index]; ok && tv.Value != nil {
				i, _ := constant.Int64Val(tv.Value)
				if i < 0 || i > 3 {
					return t.fail(e, "constant word index out of range")
				}
				return fmt.Sprintf("%s.b%d", recv, i)
			}
			return fmt.Sprintf("(Mask.word %s %s)", recv, t.expr(x.Index))
		}
		return t.fail(e, "unsupported index %s", types.ExprString(e))
	case *ast.StarExpr:
		return t.val(e)
	case *ast.UnaryExpr:
		switch x.Op {
		case token.NOT:
			return "(!" + t.expr(x.X) + ")"
		case token.XOR:
			return "(~~~" + t.expr(x.X) + ")"
		case token.AND:
			return t.expr(x.X)
		}
		return t.fail(e, "unsupported unary %s", x.Op)
	case *ast.BinaryExpr:
		return t.binary(x)
	case *ast.CallExpr:
		return t.call(x)
	case *ast.CompositeLit:
		return t.composite(x)
	}
	return t.fail(e, "unsupported expression %T %s", e, types.ExprString(e))
}

func (t *tr) binary(x *ast.BinaryExpr) string {
	// nil comparisons on optional pointers
	if id, ok := x.Y.(*ast.Ident); ok && id.Name == "nil" {
		if !t.isOptional(x.X) {
			return t.fail(x, "nil comparison on a pointer not declared optional: %s", types.ExprString(x))
		}
		if x.Op == token.EQL {
			return "(" + t.expr(x.X) + ").isNone"
		}
		if x.Op == token.NEQ {
			return "(" + t.expr(x.X) + ").isSome"
		}
	}
	l, r := t.expr(x.X), t.expr(x.Y)
	lt := t.typeOf(x.X)
	_, bv := isBV(lt)
	in := isInt(lt)
	switch x.Op {
	case token.LAND:
		return "(" + l + " && " + r + ")"
	case token.LOR:
		return "(" + l + " || " + r + ")"
	case token.EQL:
		return "(" + l + " == " + r + ")"
	case token.NEQ:
		return "(" + l + " != " + r + ")"
	}
	if bv {
		switch x.Op {
		case token.AND:
			return "(" + l + " &&& " + r + ")"
		case token.OR:
			return "(" + l + " ||| " + r + ")"
		case token.XOR:
			return "(" + l + " ^^^ " + r + ")"
		case token.AND_NOT:
			return "(" + l + " &&& ~~~" + r + ")"
		case token.ADD:
			return "(" + l + " + " + r + ")"
		case token.SUB:
			return "(" + l + " - " + r + ")"
		case token.MUL:
			return "(" + l + " * " + r + ")"
		case token.QUO:
			return "(" + l + " / " + r + ")"
		case token.REM:
			return "(" + l + " % " + r + ")"
		case token.SHL:
			return "(" + l + " <<< " + t.shiftCount(x.Y) + ")"
		case token.SHR:
			return "(" + l + " >>> " + t.shiftCount(x.Y) + ")"
		case token.LSS:
			return "(BitVec.ult " + l + " " + r + ")"
		case token.LEQ:
			return "(BitVec.ule " + l + " " + r + ")"
		case token.GTR:
			return "(BitVec.ult " + r + " " + l + ")"
		case token.GEQ:
			return "(BitVec.ule " + r + " " + l + ")"
		}
	}
	if in {
		switch x.Op {
		case token.ADD:
			return "(" + l + " + " + r + ")"
		case token.SUB:
			return "(" + l + " - " + r + ")"
		case token.MUL:
			return "(" + l + " * " + r + ")"
		case token.QUO:
			return "(Int.tdiv " + l + " " + r + ")"
		case token.REM:
			return "(Int.tmod " + l + " " + r + ")"
		case token.LSS:
			return "(decide (" + l + " < " + r + "))"
		case token.LEQ:
			return "(decide (" + l + " ≤ " + r + "))"
		case token.GTR:
			return "(decide (" + l + " > " + r + "))"
		case token.GEQ:
			return "(decide (" + l + " ≥ " + r + "))"
		}
	}
	return t.fail(x, "unsupported binary %s on %s", x.Op, lt)
}

func (t *tr) shiftCount(e ast.Expr) string {
	if tv, ok := t.info.Types[e]; ok && tv.Value != nil {
		return tv.Value.ExactString()
	}
	if _, ok := isBV(t.typeOf(e)); ok {
		return "(" + t.expr(e) + ").toNat"
	}
	return t.fail(e, "unsupported shift count")
}

func (t *tr) call(x *ast.CallExpr) string {
	// conversions
	if tv, ok := t.info.Types[x.Fun]; ok && tv.IsType() {
		if len(x.Args) != 1 {
			return t.fail(x, "bad conversion")
		}
		to := tv.Type
		from := t.typeOf(x.Args[0])
		if tw, ok := isBV(to); ok {
			if fw, ok2 := isBV(from); ok2 {
				if fw == tw {
					return t.expr(x.Args[0])
				}
				return fmt.Sprintf("(BitVec.setWidth %d %s)", tw, t.expr(x.Args[0]))
			}
		}
		if n, ok := to.(*types.Named); ok && n.Obj().Name() == "Mask" {
			return t.val(x.Args[0]) // ecs.Mask(f) on ANY/NoneOF/AnyNOT
		}
		if isInt(to) {
			if _, ok2 := isBV(from); ok2 {
				return "(Int.ofNat (" + t.expr(x.Args[0]) + ").toNat)"
			}
			if isInt(from) {
				return t.expr(x.Args[0])
			}
		}
		return t.fail(x, "unsupported conversion %s", types.ExprString(x))
	}
	switch f := x.Fun.(type) {
	case *ast.SelectorExpr:
		// package function?
		if id, ok := f.X.(*ast.Ident); ok {
			if _, isPkg := t.info.Uses[id].(*types.PkgName); isPkg {
				if id.Name == "bits" && f.Sel.Name == "OnesCount64" {
					return "(popcount64 " + t.expr(x.Args[0]) + ")"
				}
				if id.Name == "ecs" && f.Sel.Name == "All" {
					return t.fail(x, "ecs.All in expression")
				}
				return t.fail(x, "unsupported package call %s", types.ExprString(x))
			}
		}
		// method call
		recvT := t.typeOf(f.X)
		if p, ok := recvT.(*types.Pointer); ok {
			recvT = p.Elem()
		}
		n, ok := recvT.(*types.Named)
		if !ok {
			return t.fail(x, "method call on unnamed type %s", types.ExprString(x))
		}
		tn := n.Obj().Name()
		if _, isIface := n.Underlying().(*types.Interface); isIface {
			// interface dispatch: only Filter.Matches
			if f.Sel.Name == "Matches" {
				return "(F.Matches " + t.val(f.X) + " " + t.val(x.Args[0]) + ")"
			}
			return t.fail(x, "unsupported interface call")
		}
		if tn == "Subscription" {
			args := []string{t.val(f.X)}
			for _, a := range x.Args {
				args = append(args, t.val(a))
			}
			return "(Subscription." + f.Sel.Name + " " + strings.Join(args, " ") + ")"
		}
		if tn == "Mask" || tn == "MaskFilter" {
			args := []string{t.val(f.X)}
			for _, a := range x.Args {
				args = append(args, t.val(a))
			}
			return "(" + tn + "." + f.Sel.Name + " " + strings.Join(args, " ") + ")"
		}
		return t.fail(x, "unsupported method call %s", types.ExprString(x))
	case *ast.Ident:
		if f.Name == "All" {
			if x.Ellipsis.IsValid() && len(x.Args) == 1 {
				return "(All " + t.expr(x.Args[0]) + ")"
			}
			return t.fail(x, "All without ellipsis")
		}
		if f.Name == "int" || f.Name == "uint8" {
			return t.fail(x, "conversion not typed")
		}
		if f.Name == "id" && len(x.Args) == 1 {
			return t.expr(x.Args[0])
		}
		return t.fail(x, "unsupported call %s", types.ExprString(x))
	}
	return t.fail(x, "unsupported call %s", types.ExprString(x))
}

func (t *tr) composite(x *ast.CompositeLit) string {
	tp := t.typeOf(x)
	n, ok := tp.(*types.Named)
	if !ok {
		return t.fail(x, "unsupported composite %s", types.ExprString(x))
	}
	switch n.Obj().Name() {
	case "Mask":
		if len(x.Elts) == 0 {
			return "(default : Mask)"
		}
		kv, ok := x.Elts[0].(*ast.KeyValueExpr)
		if !ok || len(x.Elts) != 1 {
			return t.fail(x, "unsupported Mask literal")
		}
		if t.maskTiny {
			return "({ bits := " + t.expr(kv.Value) + " } : Mask)"
		}
		arr, ok := kv.Value.(*ast.CompositeLit)
		if !ok || len(arr.Elts) != 4 {
			return t.fail(x, "unsupported Mask words literal")
		}
		return fmt.Sprintf("({ b0 := %s, b1 := %s, b2 := %s, b3 := %s } : Mask)", t.expr(arr.Elts[0]), t.expr(arr.Elts[1]), t.expr(arr.Elts[2]), t.expr(arr.Elts[3]))
	case "MaskFilter":
		fields := []string{}
		for _, e := range x.Elts {
			kv, ok := e.(*ast.KeyValueExpr)
			if !ok {
				return t.fail(x, "unsupported MaskFilter literal")
			}
			fields = append(fields, fmt.Sprintf("%s := %s", kv.Key.(*ast.Ident).Name, t.val(kv.Value)))
		}
		return "({ " + strings.Join(fields, ", ") + " } : MaskFilter)"
	}
	return t.fail(x, "unsupported composite %s", types.ExprString(x))
}

// assigned returns the names of variables (and the receiver, via field/index assignment)
// assigned in the statements.
func (t *tr) lhsTarget(e ast.Expr) (name string, word ast.Expr, whole bool) {
	switch x := e.(type) {
	case *ast.Ident:
		return x.Name, nil, true
	case *ast.IndexExpr:
		if sel, ok := x.X.(*ast.SelectorExpr); ok && sel.Sel.Name == "bits" {
			if id, ok := sel.X.(*ast.Ident); ok {
				return id.Name, x.Index, false
			}
		}
	case *ast.SelectorExpr:
		if id, ok := x.X.(*ast.Ident); ok && x.Sel.Name == "bits" {
			return id.Name, nil, false
		}
	}
	return "", nil, false
}

func opOf(tok token.Token) token.Token {
	switch tok {
	case token.OR_ASSIGN:
		return token.OR
	case token.AND_ASSIGN:
		return token.AND
	case token.ADD_ASSIGN:
		return token.ADD
	case token.XOR_ASSIGN:
		return token.XOR
	}
	return token.ILLEGAL
}

// stmts translates a statement list in continuation style; `end` is what the function yields
// when control falls off the end (the mutated receiver, or unit).
func (t *tr) stmts(list []ast.Stmt, end string, ind string) string {
	if len(list) == 0 {
		return end
	}
	s, rest := list[0], list[1:]
	switch x := s.(type) {
	case *ast.ReturnStmt:
		if len(x.Results) == 0 {
			return end
		}
		if len(x.Results) != 1 {
			return t.fail(x, "multiple results")
		}
		return t.val(x.Results[0])
	case *ast.DeclStmt:
		gd := x.Decl.(*ast.GenDecl)
		out := ""
		for _, sp := range gd.Specs {
			vs := sp.(*ast.ValueSpec)
			for i, n := range vs.Names {
				val := "default"
				if len(vs.Values) > i {
					val = t.expr(vs.Values[i])
				} else if vs.Type != nil {
					tp := t.typeOf(vs.Type)
					if w, ok := isBV(tp); ok {
						val = fmt.Sprintf("0#%d", w)
					} else if isInt(tp) {
						val = "(0 : Int)"
					} else {
						val = "(default : " + t.leanType(tp) + ")"
					}
				}
				out += fmt.Sprintf("let %s := %s\n%s", n.Name, val, ind)
			}
		}
		return out + t.stmts(rest, end, ind)
	case *ast.AssignStmt:
		if len(x.Lhs) != 1 || len(x.Rhs) != 1 {
			return t.fail(x, "multi-assignment")
		}
		name, word, whole := t.lhsTarget(x.Lhs[0])
		if name == "" {
			return t.fail(x, "unsupported assignment target %s", types.ExprString(x.Lhs[0]))
		}
		rhs := ""
		if whole || word != nil || t.maskTiny {
			rhs = t.expr(x.Rhs[0])
		}
		if x.Tok != token.DEFINE && x.Tok != token.ASSIGN {
			op := opOf(x.Tok)
			if op == token.ILLEGAL {
				return t.fail(x, "unsupported assignment operator %s", x.Tok)
			}
			be := &ast.BinaryExpr{X: x.Lhs[0], Op: op, Y: x.Rhs[0]}
			// type info for the synthesized node: reuse lhs type
			t.info.Types[be] = types.TypeAndValue{Type: t.typeOf(x.Lhs[0])}
			rhs = t.binary(be)
		}
		var line string
		switch {
		case whole:
			line = fmt.Sprintf("let %s := %s", name, rhs)
		case word != nil:
			if tv, ok := t.info.Types[word]; ok && tv.Value != nil {
				i, _ := constant.Int64Val(tv.Value)
				line = fmt.Sprintf("let %s := { %s with b%d := %s }", name, name, i, rhs)
			} else {
				line = fmt.Sprintf("let %s := Mask.setWord %s %s %s", name, name, t.expr(word), rhs)
			}
		default:
			// b.bits = …  (tiny: a word; default: a [4]uint64 literal)
			if t.maskTiny {
				line = fmt.Sprintf("let %s := { %s with bits := %s }", name, name, rhs)
			} else {
				arr, ok := x.Rhs[0].(*ast.CompositeLit)
				if !ok || len(arr.Elts) != 4 {
					return t.fail(x, "unsupported words assignment")
				}
				line = fmt.Sprintf("let %s := ({ b0 := %s, b1 := %s, b2 := %s, b3 := %s } : Mask)", name, t.expr(arr.Elts[0]), t.expr(arr.Elts[1]), t.expr(arr.Elts[2]), t.expr(arr.Elts[3]))
			}
		}
		return line + "\n" + ind + t.stmts(rest, end, ind)
	case *ast.IfStmt:
		if x.Init != nil {
			return t.fail(x, "if with init")
		}
		cond := t.expr(x.Cond)
		// `if c { v op= e }` with no else: a conditional update, no duplication of the continuation
		if x.Else == nil && len(x.Body.List) == 1 {
			if as, ok := x.Body.List[0].(*ast.AssignStmt); ok && len(as.Lhs) == 1 {
				if id, ok := as.Lhs[0].(*ast.Ident); ok && as.Tok != token.DEFINE {
					inner := t.stmts([]ast.Stmt{as}, id.Name, ind+"    ")
					return fmt.Sprintf("let %s := if %s then\n%s    %s\n%s  else %s\n%s", id.Name, cond, ind, inner, ind, id.Name, ind) + t.stmts(rest, end, ind)
				}
			}
		}
		thenL := append(append([]ast.Stmt{}, x.Body.List...), rest...)
		var elseL []ast.Stmt
		switch e := x.Else.(type) {
		case nil:
			elseL = rest
		case *ast.BlockStmt:
			elseL = append(append([]ast.Stmt{}, e.List...), rest...)
		case *ast.IfStmt:
			elseL = append([]ast.Stmt{e}, rest...)
		}
		return fmt.Sprintf("if %s then\n%s  %s\n%selse\n%s  %s", cond, ind, t.stmts(thenL, end, ind+"  "), ind, ind, t.stmts(elseL, end, ind+"  "))
	case *ast.RangeStmt:
		// for _, id := range ids { mask.Set(id, true) }
		if len(x.Body.List) == 1 {
			if es, ok := x.Body.List[0].(*ast.ExprStmt); ok {
				if call, ok := es.X.(*ast.CallExpr); ok {
					if sel, ok := call.Fun.(*ast.SelectorExpr); ok {
						if recv, ok := sel.X.(*ast.Ident); ok {
							v := x.Value.(*ast.Ident).Name
							args := []string{recv.Name}
							for _, a := range call.Args {
								args = append(args, t.val(a))
							}
							line := fmt.Sprintf("let %s := (%s).foldl (fun %s %s => Mask.%s %s) %s", recv.Name, t.expr(x.X), recv.Name, v, sel.Sel.Name, strings.Join(args, " "), recv.Name)
							return line + "\n" + ind + t.stmts(rest, end, ind)
						}
					}
				}
			}
		}
		return t.fail(x, "unsupported range loop")
	case *ast.ExprStmt:
		return t.fail(x, "unsupported expression statement %s", types.ExprString(x.X))
	}
	return t.fail(s, "unsupported statement %T", s)
}
