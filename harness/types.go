package main

// Component type family and value encoding.
//
// Every registration creates a *distinct* Go type (reflect.StructOf with a unique marker
// field, or arrays of distinct length), so that any number of component IDs up to the limit
// can be used. A value v (0..250) is encoded into every byte of the component, so partial
// copies, wrong strides and stale rows decode as "corrupt".

import (
	"fmt"
	"reflect"
	"strconv"
	"strings"
	"unsafe"

	"github.com/mlange-42/arche/ecs"
)

type payload struct {
	tok  uint64
	ntok uint64
	pad  [4]uint64
}

type compKind struct {
	kind  string
	tp    reflect.Type
	id    ecs.ID
	isRel bool
	size  uintptr
	isPtr bool
}

var relationType = reflect.TypeOf(ecs.Relation{})
var byteType = reflect.TypeOf(uint8(0))

// makeType builds the n-th component type of a given kind.
func makeType(kind string, n int) (reflect.Type, bool, bool, error) {
	marker := reflect.StructField{Name: fmt.Sprintf("M%d", n), Type: reflect.TypeOf(struct{}{})}
	switch {
	case kind == "z":
		return reflect.StructOf([]reflect.StructField{marker}), false, false, nil
	case kind == "rel":
		return reflect.StructOf([]reflect.StructField{
			{Name: "Relation", Type: relationType, Anonymous: true}, marker}), true, false, nil
	case kind == "relp":
		return reflect.StructOf([]reflect.StructField{
			{Name: "Relation", Type: relationType, Anonymous: true},
			{Name: "V", Type: reflect.ArrayOf(8, byteType)}, marker}), true, false, nil
	case kind == "rel2":
		return reflect.StructOf([]reflect.StructField{
			{Name: "V", Type: reflect.ArrayOf(4, byteType)},
			{Name: "Relation", Type: relationType, Anonymous: true}, marker}), false, false, nil
	case kind == "ns":
		// non-struct type: array of uint32, distinct by length
		return reflect.ArrayOf(3+n, reflect.TypeOf(uint32(0))), false, false, nil
	case kind == "ptr":
		return reflect.StructOf([]reflect.StructField{
			{Name: "P", Type: reflect.TypeOf((*payload)(nil))}, marker}), false, true, nil
	case strings.HasPrefix(kind, "b"):
		sz, err := strconv.Atoi(kind[1:])
		if err != nil || sz <= 0 {
			return nil, false, false, fmt.Errorf("bad kind %s", kind)
		}
		elem := byteType
		cnt := sz
		// vary alignment with size
		if sz%8 == 0 {
			elem, cnt = reflect.TypeOf(uint64(0)), sz/8
		} else if sz%4 == 0 {
			elem, cnt = reflect.TypeOf(uint32(0)), sz/4
		} else if sz%2 == 0 {
			elem, cnt = reflect.TypeOf(uint16(0)), sz/2
		}
		return reflect.StructOf([]reflect.StructField{
			{Name: "V", Type: reflect.ArrayOf(cnt, elem)}, marker}), false, false, nil
	}
	return nil, false, false, fmt.Errorf("bad kind %s", kind)
}

func encByte(v int, i int) byte {
	if v == 0 {
		return 0
	}
	return byte((v+i*37)%255 + 1)
}

// writeVal encodes v into the component at p.
func (c *compKind) writeVal(p unsafe.Pointer, v int) {
	if c.size == 0 {
		return
	}
	if c.isPtr {
		pp := (**payload)(p)
		if v == 0 {
			*pp = nil
		} else {
			*pp = &payload{tok: uint64(v), ntok: ^uint64(v)}
		}
		return
	}
	bs := unsafe.Slice((*byte)(p), c.size)
	for i := range bs {
		bs[i] = encByte(v, i)
	}
}

// readVal decodes the component at p; returns "corrupt" when the bytes are inconsistent.
func (c *compKind) readVal(p unsafe.Pointer) string {
	if c.size == 0 {
		return "0"
	}
	if c.isPtr {
		pp := *(**payload)(p)
		if pp == nil {
			return "0"
		}
		if pp.tok != ^pp.ntok || pp.tok == 0 || pp.tok > 250 {
			return "corrupt"
		}
		return strconv.Itoa(int(pp.tok))
	}
	bs := unsafe.Slice((*byte)(p), c.size)
	if bs[0] == 0 {
		for _, b := range bs {
			if b != 0 {
				return "corrupt"
			}
		}
		return "0"
	}
	v := int(bs[0]) - 1
	if v < 1 || v > 250 {
		return "corrupt"
	}
	for i, b := range bs {
		if b != encByte(v, i) {
			return "corrupt"
		}
	}
	return strconv.Itoa(v)
}

// newVal returns a pointer (as interface{}) to a fresh value of the component type holding v.
func (c *compKind) newVal(v int) interface{} {
	rv := reflect.New(c.tp)
	c.writeVal(rv.UnsafePointer(), v)
	return rv.Interface()
}
