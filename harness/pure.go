package main

// Pure-function arm: runs the Go mask / filter / subscribes / capacity functions on generated
// inputs, one result per line, in the same line protocol as the Lean `gencheck` executable
// (which evaluates the definitions regenerated from the same source). A second column gives
// the answer of a set-semantics oracle (map[int]bool), so that a failing input for C04/C12 is
// exhibited directly.

import (
	"bufio"
	"fmt"
	"io"
	"math/bits"
	"sort"
	"strconv"
	"strings"

	"github.com/mlange-42/arche/ecs"
	"github.com/mlange-42/arche/ecs/event"
	"github.com/mlange-42/arche/filter"
	"github.com/mlange-42/arche/listener"
)

func parseIDs(s string) []ecs.ID {
	res := []ecs.ID{}
	for _, t := range strings.Split(s, ",") {
		if t == "" {
			continue
		}
		n, _ := strconv.Atoi(t)
		res = append(res, ecs.VerifID(uint8(n)))
	}
	return res
}

func parseSet(s string) map[int]bool {
	res := map[int]bool{}
	for _, t := range strings.Split(s, ",") {
		if t == "" {
			continue
		}
		n, _ := strconv.Atoi(t)
		res[n] = true
	}
	return res
}

func members(m *ecs.Mask) string {
	l := []string{}
	for i := 0; i < ecs.MaskTotalBits; i++ {
		if m.Get(ecs.VerifID(uint8(i))) {
			l = append(l, strconv.Itoa(i))
		}
	}
	return strings.Join(l, ",")
}

func setStr(s map[int]bool) string {
	l := []int{}
	for k, v := range s {
		if v {
			l = append(l, k)
		}
	}
	sort.Ints(l)
	return joinInts(l)
}

func optMask(s string) *ecs.Mask {
	if s == "nil" {
		return nil
	}
	m := ecs.All(parseIDs(s)...)
	return &m
}

func optIDStr(s string) *ecs.ID {
	if s == "nil" {
		return nil
	}
	n, _ := strconv.Atoi(s)
	id := ecs.VerifID(uint8(n))
	return &id
}

// parseFilter returns the real filter and its set-semantics oracle.
var pureAlt int

func parseFilter(t []string) (ecs.Filter, func(map[int]bool) bool, []string) {
	if len(t) == 0 {
		return nil, nil, nil
	}
	switch t[0] {
	case "A":
		m := ecs.All(parseIDs(t[1])...)
		s := parseSet(t[1])
		return m, func(b map[int]bool) bool {
			for k := range s {
				if !b[k] {
					return false
				}
			}
			return true
		}, t[2:]
	case "W":
		f := ecs.All(parseIDs(t[1])...).Without(parseIDs(t[2])...)
		inc, exc := parseSet(t[1]), parseSet(t[2])
		return &f, func(b map[int]bool) bool {
			for k := range inc {
				if !b[k] {
					return false
				}
			}
			for k := range exc {
				if b[k] {
					return false
				}
			}
			return true
		}, t[3:]
	case "X":
		f := ecs.All(parseIDs(t[1])...).Exclusive()
		inc := parseSet(t[1])
		return &f, func(b map[int]bool) bool {
			for k := range inc {
				if !b[k] {
					return false
				}
			}
			for k, v := range b {
				if v && !inc[k] {
					return false
				}
			}
			return true
		}, t[2:]
	case "ANY", "NONE", "ANYNOT":
		s := parseSet(t[1])
		anyF := func(b map[int]bool) bool {
			for k := range s {
				if b[k] {
					return true
				}
			}
			return false
		}
		allF := func(b map[int]bool) bool {
			for k := range s {
				if !b[k] {
					return false
				}
			}
			return true
		}
		// the logic filters are exported mask types: half of the time the value is built by converting a mask
		// instead of calling the constructor (both are public API and must mean the same)
		pureAlt++
		direct := pureAlt%2 == 0
		switch t[0] {
		case "ANY":
			if direct {
				return filter.ANY(ecs.All(parseIDs(t[1])...)), anyF, t[2:]
			}
			return filter.Any(parseIDs(t[1])...), anyF, t[2:]
		case "NONE":
			if direct {
				return filter.NoneOF(ecs.All(parseIDs(t[1])...)), func(b map[int]bool) bool { return !anyF(b) }, t[2:]
			}
			return filter.NoneOf(parseIDs(t[1])...), func(b map[int]bool) bool { return !anyF(b) }, t[2:]
		default:
			if direct {
				return filter.AnyNOT(ecs.All(parseIDs(t[1])...)), func(b map[int]bool) bool { return !allF(b) }, t[2:]
			}
			return filter.AnyNot(parseIDs(t[1])...), func(b map[int]bool) bool { return !allF(b) }, t[2:]
		}
	case "&", "|", "^":
		l, lo, r1 := parseFilter(t[1:])
		r, ro, r2 := parseFilter(r1)
		if l == nil || r == nil {
			return nil, nil, nil
		}
		switch t[0] {
		case "&":
			return filter.And(l, r), func(b map[int]bool) bool { return lo(b) && ro(b) }, r2
		case "|":
			return filter.Or(l, r), func(b map[int]bool) bool { return lo(b) || ro(b) }, r2
		default:
			return filter.XOr(l, r), func(b map[int]bool) bool { return lo(b) != ro(b) }, r2
		}
	case "!":
		f, o, r := parseFilter(t[1:])
		if f == nil {
			return nil, nil, nil
		}
		return filter.Not(f), func(b map[int]bool) bool { return !o(b) }, r
	}
	return nil, nil, nil
}

// pureExec returns (result of the Go function, result of the oracle or "" when none).
func pureExec(t []string) (string, string) {
	bits_ := ecs.MaskTotalBits
	switch t[0] {
	case "get":
		m := ecs.All(parseIDs(t[1])...)
		i, _ := strconv.Atoi(t[2])
		return b01(m.Get(ecs.VerifID(uint8(i)))), b01(parseSet(t[1])[i])
	case "set":
		m := ecs.All(parseIDs(t[1])...)
		i, _ := strconv.Atoi(t[2])
		m.Set(ecs.VerifID(uint8(i)), t[3] == "1")
		s := parseSet(t[1])
		s[i] = t[3] == "1"
		return members(&m), setStr(s)
	case "not":
		m := ecs.All(parseIDs(t[1])...)
		n := m.Not()
		s := parseSet(t[1])
		o := map[int]bool{}
		for i := 0; i < bits_; i++ {
			o[i] = !s[i]
		}
		return members(&n), setStr(o)
	case "and", "or", "xor":
		a, b := ecs.All(parseIDs(t[1])...), ecs.All(parseIDs(t[2])...)
		sa, sb := parseSet(t[1]), parseSet(t[2])
		o := map[int]bool{}
		var r ecs.Mask
		for i := 0; i < bits_; i++ {
			switch t[0] {
			case "and":
				o[i] = sa[i] && sb[i]
			case "or":
				o[i] = sa[i] || sb[i]
			default:
				o[i] = sa[i] != sb[i]
			}
		}
		other := &b
		if t[1] == t[2] {
			other = &a // the same operand on both sides: the same object, as in m.Xor(&m)
		}
		switch t[0] {
		case "and":
			r = a.And(other)
		case "or":
			r = a.Or(other)
		default:
			r = a.Xor(other)
		}
		return members(&r), setStr(o)
	case "contains", "containsany":
		a, b := ecs.All(parseIDs(t[1])...), ecs.All(parseIDs(t[2])...)
		sa, sb := parseSet(t[1]), parseSet(t[2])
		all, any := true, false
		for k := range sb {
			if sa[k] {
				any = true
			} else {
				all = false
			}
		}
		other := &b
		if t[1] == t[2] {
			other = &a
		}
		if t[0] == "contains" {
			return b01(a.Contains(other)), b01(all)
		}
		return b01(a.ContainsAny(other)), b01(any)
	case "iszero":
		m := ecs.All(parseIDs(t[1])...)
		return b01(m.IsZero()), b01(len(parseSet(t[1])) == 0)
	case "reset":
		m := ecs.All(parseIDs(t[1])...)
		m.Reset()
		return members(&m), ""
	case "total":
		m := ecs.All(parseIDs(t[1])...)
		return strconv.Itoa(m.TotalBitsSet()), strconv.Itoa(len(parseSet(t[1])))
	case "all":
		m := ecs.All(parseIDs(t[1])...)
		return members(&m), setStr(parseSet(t[1]))
	case "matches":
		f, o, rest := parseFilter(t[2:])
		if f == nil || len(rest) != 0 {
			return "bad-op", "-"
		}
		m := ecs.All(parseIDs(t[1])...)
		return b01(f.Matches(&m)), b01(o(parseSet(t[1])))
	case "subscription":
		b := func(s string) bool { return s == "1" }
		return strconv.Itoa(int(ecs.VerifSubscription(b(t[1]), b(t[2]), b(t[3]), b(t[4]), b(t[5]), b(t[6])))), "-" // no independent oracle: compared with the regenerated definition only
	case "subscribes", "lsubscribes":
		tr, _ := strconv.Atoi(t[1])
		var r bool
		if t[0] == "subscribes" {
			r = ecs.VerifSubscribes(event.Subscription(tr), optMask(t[2]), optMask(t[3]), optMask(t[4]), optIDStr(t[5]), optIDStr(t[6]))
		} else {
			r = listener.VerifSubscribes(event.Subscription(tr), optMask(t[2]), optMask(t[3]), optMask(t[4]), optIDStr(t[5]), optIDStr(t[6]))
		}
		return b01(r), b01(selectOracle(tr, t[2], t[3], t[4], t[5], t[6]))
	case "capacity":
		a, _ := strconv.Atoi(t[1])
		b, _ := strconv.Atoi(t[2])
		return strconv.Itoa(ecs.VerifCapacity(a, b)), strconv.Itoa((a + b - 1) / b * b)
	case "capacitynz":
		a, _ := strconv.Atoi(t[1])
		b, _ := strconv.Atoi(t[2])
		o := (a + b - 1) / b * b
		if a == 0 {
			o = b
		}
		return strconv.Itoa(ecs.VerifCapacityNonZero(a, b)), strconv.Itoa(o)
	case "capacityu32":
		a, _ := strconv.ParseUint(t[1], 10, 32)
		b, _ := strconv.ParseUint(t[2], 10, 32)
		return strconv.FormatUint(uint64(ecs.VerifCapacityU32(uint32(a), uint32(b))), 10), "-"
	}
	return "bad-op", "-"
}

// selectOracle: the documented selection rule of C12.
func selectOracle(trigger int, added, removed, subs, oldRel, newRel string) bool {
	if trigger == 0 {
		return false
	}
	if subs == "nil" {
		return true
	}
	s := parseSet(subs)
	inter := func(m string) bool {
		if m == "nil" {
			return false
		}
		for k := range parseSet(m) {
			if s[k] {
				return true
			}
		}
		return false
	}
	rel := func(r string) bool {
		if r == "nil" {
			return false
		}
		n, _ := strconv.Atoi(r)
		return s[n]
	}
	if trigger&48 != 0 && (rel(oldRel) || rel(newRel)) {
		return true
	}
	if trigger&5 != 0 && inter(added) {
		return true
	}
	if trigger&10 != 0 && inter(removed) {
		return true
	}
	return false
}

func randIDs(r *rng, max int) string {
	n := r.intn(max + 1)
	bound := ecs.MaskTotalBits
	edges := []int{0, 1, 62, 63}
	if bound > 64 {
		edges = append(edges, 64, 65, 127, 128, 129, 191, 192, 193, 254, 255)
	}
	l := []string{}
	for i := 0; i < n; i++ {
		if r.chance(40) {
			l = append(l, strconv.Itoa(pick(r, edges)))
		} else {
			l = append(l, strconv.Itoa(r.intn(bound)))
		}
	}
	return strings.Join(l, ",")
}

func randFilter(r *rng, depth int) string {
	x := r.intn(100)
	switch {
	case x < 25:
		return "A " + orDash(randIDs(r, 3))
	case x < 40:
		inc, exc := randIDs(r, 3), randIDs(r, 3)
		if r.chance(30) && inc != "" {
			// overlapping include / exclude: legal, and must match nothing
			first := strings.Split(inc, ",")[0]
			if exc == "" {
				exc = first
			} else {
				exc = exc + "," + first
			}
		}
		return "W " + orDash(inc) + " " + orDash(exc)
	case x < 50:
		return "X " + orDash(randIDs(r, 3))
	case x < 65:
		return pick(r, []string{"ANY", "NONE", "ANYNOT"}) + " " + orDash(randIDs(r, 3))
	case depth < 4 && x < 90:
		return pick(r, []string{"&", "|", "^"}) + " " + randFilter(r, depth+1) + " " + randFilter(r, depth+1)
	case depth < 4:
		return "! " + randFilter(r, depth+1)
	}
	return "A " + orDash(randIDs(r, 2))
}

// an empty id list is written as "," so that it stays one token
func orDash(s string) string {
	if s == "" {
		return ","
	}
	return s
}

// pureGen writes n generated input lines.
func pureGen(seed uint64, n int, w io.Writer) {
	r := &rng{s: seed}
	bound := ecs.MaskTotalBits
	// exhaustive part: every single id, and pairs across word boundaries
	for i := 0; i < bound; i++ {
		fmt.Fprintf(w, "get %d %d\n", i, i)
		fmt.Fprintf(w, "set , %d 1\n", i)
		fmt.Fprintf(w, "set %d %d 0\n", i, i)
		fmt.Fprintf(w, "total %d\n", i)
	}
	edges := []int{0, 63}
	if bound > 64 {
		edges = append(edges, 64, 127, 128, 191, 192, 255)
	}
	for _, a := range edges {
		for _, b := range edges {
			fmt.Fprintf(w, "get %d %d\nset %d %d 0\nand %d,%d %d\nxor %d %d\ncontains %d,%d %d\ncontainsany %d %d\n", a, b, a, b, a, b, b, a, b, a, b, b, a, b)
		}
	}
	for t := 0; t < 64; t++ {
		fmt.Fprintf(w, "subscription %d %d %d %d %d %d\n", t&1, (t>>1)&1, (t>>2)&1, (t>>3)&1, (t>>4)&1, (t>>5)&1)
	}
	for i := 0; i < n; i++ {
		a, b := orDash(randIDs(r, 6)), orDash(randIDs(r, 6))
		switch r.intn(16) {
		case 0:
			fmt.Fprintf(w, "get %s %d\n", a, r.intn(bound))
		case 1:
			fmt.Fprintf(w, "set %s %d %d\n", a, r.intn(bound), r.intn(2))
		case 2:
			fmt.Fprintf(w, "not %s\n", a)
		case 3:
			if r.chance(15) {
				b = a // identical operands (the runner then passes the same object twice)
			}
			fmt.Fprintf(w, "%s %s %s\n", pick(r, []string{"and", "or", "xor"}), a, b)
		case 4:
			if r.chance(15) {
				b = a
			}
			fmt.Fprintf(w, "%s %s %s\n", pick(r, []string{"contains", "containsany"}), a, b)
		case 5:
			fmt.Fprintf(w, "iszero %s\nreset %s\ntotal %s\nall %s\n", a, a, a, a)
		case 6, 7:
			fmt.Fprintf(w, "matches %s %s\n", a, randFilter(r, 0))
		case 8, 9:
			// a mask correlated with the filter: a random subset of the ids the filter mentions,
			// sometimes with one extra id, so that matching filters are common
			f := randFilter(r, 0)
			ids := []string{}
			for _, tok := range strings.FieldsFunc(f, func(c rune) bool { return c == ' ' || c == ',' }) {
				if _, err := strconv.Atoi(tok); err == nil && r.chance(75) {
					ids = append(ids, tok)
				}
			}
			if r.chance(25) {
				ids = append(ids, strconv.Itoa(r.intn(bound)))
			}
			fmt.Fprintf(w, "matches %s %s\n", orDash(strings.Join(ids, ",")), f)
		case 10, 11, 12, 13:
			opt := func(s string) string {
				if r.chance(25) {
					return "nil"
				}
				return s
			}
			rel := func() string {
				if r.chance(40) {
					return "nil"
				}
				return strconv.Itoa(r.intn(bound))
			}
			fmt.Fprintf(w, "%s %d %s %s %s %s %s\n", pick(r, []string{"subscribes", "lsubscribes"}), r.intn(64), opt(a), opt(b), opt(orDash(randIDs(r, 4))), rel(), rel())
		default:
			inc := 1 + r.intn(200)
			fmt.Fprintf(w, "capacity %d %d\ncapacitynz %d %d\ncapacityu32 %d %d\n", r.intn(5000), inc, r.intn(300), inc, r.intn(1<<20), inc)
		}
	}
}

// pureRun executes lines; output "<go result>\t<oracle result>".
func pureRun(in io.Reader, out io.Writer) {
	sc := bufio.NewScanner(in)
	sc.Buffer(make([]byte, 1<<20), 1<<24)
	w := bufio.NewWriter(out)
	defer w.Flush()
	for sc.Scan() {
		t := strings.Fields(sc.Text())
		if len(t) == 0 {
			continue
		}
		for i := range t {
			if t[i] == "," {
				t[i] = ""
			}
		}
		a, b := pureExec(t)
		fmt.Fprintf(w, "%s\t%s\n", a, b)
	}
}

var _ = bits.OnesCount64
