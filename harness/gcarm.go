package main

// GC arm (C14): components holding pointers, under real garbage collection. Runs in a child
// process (a runtime fatal error kills the child, not the check).
//
//   soak     : entities carrying struct{P *payload} (payload reachable only through the
//              component) are moved between tables, swap-removed, grown, batch-moved while the
//              program allocates normally; every payload must stay intact and be the right one
//   retain   : once a component / its entity is removed or the world is reset, the referent is
//              collectable (finalizers run)
//   escape   : call sites passing non-escaping literals to Set / Assign / NewEntityWith

import (
	"fmt"
	"os"
	"runtime"
	"sync/atomic"
	"time"
	"unsafe"

	"github.com/mlange-42/arche/ecs"
)

type gcPayload struct {
	tok  uint64
	ntok uint64
	fill [6]uint64
}

type gcHolder struct {
	P *gcPayload
}

type gcHolder2 struct {
	A int64
	S []uint64
	P *gcPayload
}

// a component whose only GC-relevant fields are strings
type gcStrings struct {
	N    int64
	A, B string
}

// a one-word pointer component registered FIRST (lowest id): batch-adding it shifts the column of every kept component
type gcFirst struct{ Q *gcPayload }

type gcPlain1 struct{ X, Y int64 }
type gcPlain2 struct{ V [3]int32 }
type gcRel struct {
	ecs.Relation
	P *gcPayload
}

var gcSink [][]byte

func gcFail(format string, a ...interface{}) {
	fmt.Printf("GC-ARM FAILURE: "+format+"\n", a...)
	os.Exit(3)
}

func newPayload(tok uint64) *gcPayload {
	p := &gcPayload{tok: tok, ntok: ^tok}
	for i := range p.fill {
		p.fill[i] = tok * uint64(i+3)
	}
	return p
}

func checkPayload(p *gcPayload, tok uint64, what string) {
	if p == nil {
		gcFail("%s: payload pointer is nil, expected token %d", what, tok)
	}
	if p.tok != tok || p.ntok != ^tok {
		gcFail("%s: payload corrupted or replaced: tok=%d ntok=%d expected %d", what, p.tok, p.ntok, tok)
	}
	for i := range p.fill {
		if p.fill[i] != tok*uint64(i+3) {
			gcFail("%s: payload filler corrupted (token %d)", what, tok)
		}
	}
}

func gcSoak(seconds float64, seed uint64) {
	r := &rng{s: seed}
	w := ecs.NewWorld(ecs.NewConfig().WithCapacityIncrement(16).WithRelationCapacityIncrement(4))
	fID := ecs.ComponentID[gcFirst](&w)
	hID := ecs.ComponentID[gcHolder](&w)
	h2ID := ecs.ComponentID[gcHolder2](&w)
	p1 := ecs.ComponentID[gcPlain1](&w)
	p2 := ecs.ComponentID[gcPlain2](&w)
	relID := ecs.ComponentID[gcRel](&w)
	sID := ecs.ComponentID[gcStrings](&w)
	expect := map[ecs.Entity]uint64{}
	ents := []ecs.Entity{}
	var next uint64 = 1
	targets := []ecs.Entity{}
	for i := 0; i < 8; i++ {
		targets = append(targets, w.NewEntity())
	}
	create := func() {
		tok := next
		next++
		var e ecs.Entity
		switch r.intn(4) {
		case 0:
			e = w.NewEntity(hID)
			(*gcHolder)(w.Get(e, hID)).P = newPayload(tok)
		case 1:
			e = w.NewEntityWith(ecs.Component{ID: hID, Comp: &gcHolder{P: newPayload(tok)}}, ecs.Component{ID: p1, Comp: &gcPlain1{1, 2}})
		case 2:
			e = w.NewEntity(p2)
			w.Assign(e, ecs.Component{ID: hID, Comp: &gcHolder{P: newPayload(tok)}})
		default:
			e = ecs.NewBuilder(&w, hID, relID).WithRelation(relID).New(pick(r, targets))
			w.Set(e, hID, &gcHolder{P: newPayload(tok)})
			(*gcRel)(w.Get(e, relID)).P = newPayload(tok)
		}
		expect[e] = tok
		ents = append(ents, e)
	}
	verify := func(e ecs.Entity) {
		tok := expect[e]
		h := (*gcHolder)(w.Get(e, hID))
		if h == nil {
			gcFail("entity %v lost its holder component", e)
		}
		checkPayload(h.P, tok, fmt.Sprintf("entity %v holder", e))
		if w.Has(e, h2ID) {
			h2 := (*gcHolder2)(w.Get(e, h2ID))
			checkPayload(h2.P, tok, fmt.Sprintf("entity %v holder2", e))
			if len(h2.S) != 3 || h2.S[0] != tok || h2.S[2] != tok+2 {
				gcFail("entity %v: slice in component corrupted", e)
			}
		}
		if w.Has(e, relID) {
			checkPayload((*gcRel)(w.Get(e, relID)).P, tok, fmt.Sprintf("entity %v relation payload", e))
		}
		if w.Has(e, sID) {
			sc := (*gcStrings)(w.Get(e, sID))
			if sc.A != fmt.Sprintf("payload-string-A-%d-%d", tok, tok*7) || sc.B != fmt.Sprintf("B/%d/%d/%d", tok, tok, tok) {
				gcFail("entity %v: strings in component corrupted: %q %q (token %d)", e, sc.A, sc.B, tok)
			}
		}
	}
	for i := 0; i < 1500; i++ {
		create()
	}
	deadline := time.Now().Add(time.Duration(seconds * float64(time.Second)))
	ops := 0
	for time.Now().Before(deadline) {
		for k := 0; k < 200; k++ {
			ops++
			if len(ents) == 0 {
				create()
				continue
			}
			i := r.intn(len(ents))
			e := ents[i]
			switch r.intn(12) {
			case 0:
				create()
			case 1:
				w.RemoveEntity(e)
				delete(expect, e)
				ents[i] = ents[len(ents)-1]
				ents = ents[:len(ents)-1]
			case 2, 3:
				if w.Has(e, p1) {
					w.Remove(e, p1)
				} else {
					w.Add(e, p1)
				}
			case 4, 5:
				if w.Has(e, p2) {
					w.Remove(e, p2)
				} else {
					w.Add(e, p2)
				}
			case 6:
				if !w.Has(e, h2ID) {
					tok := expect[e]
					w.Assign(e, ecs.Component{ID: h2ID, Comp: &gcHolder2{A: 7, S: []uint64{tok, tok + 1, tok + 2}, P: newPayload(tok)}})
				} else {
					w.Remove(e, h2ID)
				}
			case 7:
				if w.Has(e, relID) {
					w.Relations().Set(e, relID, pick(r, targets))
				} else if !w.Has(e, sID) {
					tok := expect[e]
					w.Assign(e, ecs.Component{ID: sID, Comp: &gcStrings{N: 1, A: fmt.Sprintf("payload-string-A-%d-%d", tok, tok*7), B: fmt.Sprintf("B/%d/%d/%d", tok, tok, tok)}})
				} else if r.chance(30) {
					w.Remove(e, sID)
				}
			case 8:
				// batch move of everything that has p1 but not p2 (and back later)
				if r.chance(5) {
					f := ecs.All(p1).Without(p2)
					w.Batch().Add(&f, p2)
				}
				// ... and of the lowest-id pointer component onto everything that carries holder2 (a component with a
				// lower id than the kept ones moves every kept column one to the right in the destination table)
				if r.chance(5) {
					f := ecs.All(h2ID).Without(fID)
					w.Batch().Add(&f, fID)
				}
			case 9:
				if r.chance(5) {
					w.Batch().Remove(ecs.All(p1, p2), p2)
				}
				if r.chance(5) {
					w.Batch().Remove(ecs.All(h2ID, fID), fID)
				}
			case 10:
				verify(e)
			default:
				// ordinary allocation pressure, so that GC cycles overlap the operations
				gcSink = append(gcSink, make([]byte, 256+r.intn(4096)))
				if len(gcSink) > 64 {
					gcSink = gcSink[:0]
				}
			}
		}
		for _, e := range ents {
			verify(e)
		}
	}
	runtime.GC()
	for _, e := range ents {
		verify(e)
	}
	fmt.Printf("soak ok ops=%d entities=%d gc=%d\n", ops, len(ents), numGC())
}

func numGC() uint32 {
	var ms runtime.MemStats
	runtime.ReadMemStats(&ms)
	return ms.NumGC
}

var finalized int64

func trackedPayload(tok uint64) *gcPayload {
	p := newPayload(tok)
	runtime.SetFinalizer(p, func(*gcPayload) { finalized++ })
	return p
}

func settle() {
	for i := 0; i < 6; i++ {
		runtime.GC()
		time.Sleep(5 * time.Millisecond)
	}
}

//go:noinline
func fillWorld(w *ecs.World, hID, p1 ecs.ID, n int, base uint64, extra ...ecs.ID) []ecs.Entity {
	es := make([]ecs.Entity, n)
	ids := append([]ecs.ID{hID, p1}, extra...)
	for i := range es {
		es[i] = w.NewEntity(ids...)
		(*gcHolder)(w.Get(es[i], hID)).P = trackedPayload(base + uint64(i))
	}
	return es
}

type gcLabel struct{}
type gcLabel2 struct{}

func gcRetain() {
	gcRelease()
	gcRetainShape("", false)
	// tables whose first / last column is a zero-sized (label) component
	gcRetainShape("label-first/", true)
	fmt.Println("retain ok")
}

func gcRetainShape(prefix string, labels bool) {
	w := ecs.NewWorld(ecs.NewConfig().WithCapacityIncrement(8))
	extra := []ecs.ID{}
	if labels {
		extra = append(extra, ecs.ComponentID[gcLabel](&w))
	}
	hID := ecs.ComponentID[gcHolder](&w)
	p1 := ecs.ComponentID[gcPlain1](&w)
	if labels {
		extra = append(extra, ecs.ComponentID[gcLabel2](&w))
	}
	const n = 200
	step := func(name string, expectMin int64, f func(es []ecs.Entity)) {
		name = prefix + name
		finalized = 0
		es := fillWorld(&w, hID, p1, n, 1000, extra...)
		settle()
		if finalized != 0 {
			gcFail("retain/%s: %d payloads collected while their components still exist", name, finalized)
		}
		f(es)
		settle()
		if finalized < expectMin {
			gcFail("retain/%s: only %d of %d payloads were released after their components were removed (storage keeps them alive)", name, finalized, expectMin)
		}
		// the survivors must still be intact
		for i, e := range es {
			if name == prefix+"reset" {
				break // handles of the previous epoch are meaningless after Reset
			}
			if w.Alive(e) && w.Has(e, hID) && (*gcHolder)(w.Get(e, hID)).P != nil {
				checkPayload((*gcHolder)(w.Get(e, hID)).P, 1000+uint64(i), "retain/"+name+" survivor")
			}
		}
		w.Batch().RemoveEntities(ecs.All())
		settle()
	}
	step("remove-component", n/2, func(es []ecs.Entity) {
		for i := 0; i < n/2; i++ {
			w.Remove(es[i], hID)
		}
	})
	step("remove-entity", n/2, func(es []ecs.Entity) {
		for i := 0; i < n; i += 2 {
			w.RemoveEntity(es[i])
		}
	})
	step("batch-remove-component", n, func(es []ecs.Entity) {
		w.Batch().Remove(ecs.All(hID), hID)
	})
	step("batch-remove-entities", n, func(es []ecs.Entity) {
		w.Batch().RemoveEntities(ecs.All(hID))
	})
	step("reset", n, func(es []ecs.Entity) {
		w.Reset()
	})
	// relation tables with a live non-zero target that still hold entities when the world is reset
	relID := ecs.ComponentID[gcRel](&w)
	finalized = 0
	tgt := w.NewEntity()
	for i := 0; i < n; i++ {
		e := ecs.NewBuilder(&w, hID, relID).WithRelation(relID).New(tgt)
		(*gcHolder)(w.Get(e, hID)).P = trackedPayload(uint64(3000 + i))
		(*gcRel)(w.Get(e, relID)).P = trackedPayload(uint64(4000 + i))
	}
	settle()
	if finalized != 0 {
		gcFail("retain/reset-relation: %d payloads collected while their components still exist", finalized)
	}
	w.Reset()
	settle()
	if finalized < 2*n {
		gcFail("retain/reset-relation: only %d of %d payloads were released after Reset (retired relation tables keep them alive)", finalized, 2*n)
	}
	step("overwrite", n/2, func(es []ecs.Entity) {
		for i := 0; i < n/2; i++ {
			w.Set(es[i], hID, &gcHolder{P: nil})
		}
	})
	// single moves out of and back into a table: the vacated rows do not keep the referents,
	// the re-used rows start zeroed
	step("move-away", n, func(es []ecs.Entity) {
		for _, e := range es {
			w.Remove(e, p1)
		}
		for _, e := range es {
			w.Remove(e, hID)
		}
		for _, e := range es {
			w.Add(e, hID, p1)
			if (*gcHolder)(w.Get(e, hID)).P != nil {
				gcFail("retain/%smove-away: a component added to an entity is not zero (stale row contents)", prefix)
			}
		}
	})
}

// ---- moves under a concurrently running collector ----

// gcBarrier: entities whose component is the only reference to a heap object are moved between two
// tables, last row first, while another goroutine runs the collector back to back. A move that
// copies a pointer-carrying component without the collector noticing (a raw byte copy instead of
// a typed one) loses the object when the mark phase has already scanned the destination and not
// yet the source. Table shapes: the pointer component has the lowest id, the highest id, or sits
// between pointer-free components.
type gcBallast struct {
	Next *gcBallast
	Data [4]*int
}

//go:noinline
func buildBallast(n int) *gcBallast {
	var head *gcBallast
	for i := 0; i < n; i++ {
		v := i
		head = &gcBallast{Next: head, Data: [4]*int{&v, &v, &v, &v}}
	}
	return head
}

func gcBarrier(seconds float64) {
	runtime.GOMAXPROCS(max(4, runtime.GOMAXPROCS(0)))
	// pointer-rich ballast: long mark phases, so that they overlap with the moves
	ballast := buildBallast(300000)
	defer runtime.KeepAlive(ballast)
	type shape struct {
		name string
		reg  func(w *ecs.World) (ref, other, extra ecs.ID)
	}
	shapes := []shape{
		{"pointer component first", func(w *ecs.World) (ecs.ID, ecs.ID, ecs.ID) {
			r := ecs.ComponentID[gcHolder](w)
			return r, ecs.ComponentID[gcPlain1](w), ecs.ComponentID[gcPlain2](w)
		}},
		{"pointer component last", func(w *ecs.World) (ecs.ID, ecs.ID, ecs.ID) {
			o, x := ecs.ComponentID[gcPlain1](w), ecs.ComponentID[gcPlain2](w)
			return ecs.ComponentID[gcHolder](w), o, x
		}},
		{"pointer component in the middle", func(w *ecs.World) (ecs.ID, ecs.ID, ecs.ID) {
			o := ecs.ComponentID[gcPlain1](w)
			r := ecs.ComponentID[gcHolder](w)
			return r, o, ecs.ComponentID[gcPlain2](w)
		}},
	}
	stop := make(chan struct{})
	done := make(chan struct{})
	go func() {
		defer close(done)
		for {
			select {
			case <-stop:
				return
			default:
				runtime.GC()
			}
		}
	}()
	// one world per shape, alive for the whole run: every payload stays referenced by a living entity
	type run struct {
		name  string
		w     *ecs.World
		es    []ecs.Entity
		ref   ecs.ID
		extra ecs.ID
	}
	const n = 256
	var lost int64
	runs := []*run{}
	for _, sh := range shapes {
		w := ecs.NewWorld(ecs.NewConfig().WithCapacityIncrement(64))
		ref, other, extra := sh.reg(&w)
		r := &run{name: sh.name, w: &w, ref: ref, extra: extra, es: make([]ecs.Entity, n)}
		for i := range r.es {
			r.es[i] = w.NewEntity(ref, other)
			p := newPayload(uint64(7000 + i))
			runtime.SetFinalizer(p, func(*gcPayload) { atomic.AddInt64(&lost, 1) })
			(*gcHolder)(w.Get(r.es[i], ref)).P = p
		}
		runs = append(runs, r)
	}
	fail := func() {
		close(stop)
		<-done
		gcFail("barrier: %d objects referenced only by components of living entities were collected while the entities were moved between tables under a concurrently running collector (tables: pointer component first / last / in the middle)", atomic.LoadInt64(&lost))
	}
	deadline := time.Now().Add(time.Duration(seconds * float64(time.Second)))
	rounds := 0
	for time.Now().Before(deadline) {
		for _, r := range runs {
			for i := n - 1; i >= 0; i-- { // last row first
				r.w.Add(r.es[i], r.extra)
			}
			for i := 0; i < n; i++ { // again the last row of the (other) table first
				r.w.Remove(r.es[i], r.extra)
			}
		}
		rounds++
		if atomic.LoadInt64(&lost) != 0 {
			fail()
		}
	}
	close(stop)
	<-done
	settle()
	if atomic.LoadInt64(&lost) != 0 {
		gcFail("barrier: %d objects referenced only by components of living entities were collected while the entities were moved between tables under a concurrently running collector", atomic.LoadInt64(&lost))
	}
	for _, r := range runs {
		for i, e := range r.es {
			checkPayload((*gcHolder)(r.w.Get(e, r.ref)).P, uint64(7000+i), "barrier/"+r.name)
		}
	}
	runtime.KeepAlive(runs)
	fmt.Printf("barrier ok rounds=%d\n", rounds)
}

// ---- call-site shapes with non-escaping literals ----

type gcHolderA struct {
	P *[6]uint64
}

//go:noinline
func setLocalLiteral(w *ecs.World, e ecs.Entity, id ecs.ID, tok uint64) {
	x := [6]uint64{tok, ^tok, tok * 3, tok * 4, tok * 5, tok * 6}
	w.Set(e, id, &gcHolderA{P: &x})
}

func checkArr(p *[6]uint64, tok uint64, what string) {
	if p == nil || *p != [6]uint64{tok, ^tok, tok * 3, tok * 4, tok * 5, tok * 6} {
		gcFail("%s: referenced array corrupted (dangling pointer): %v, expected token %d", what, p, tok)
	}
}

//go:noinline
func assignLocalLiteral(w *ecs.World, e ecs.Entity, id ecs.ID, tok uint64) {
	x := gcPayload{tok: tok, ntok: ^tok}
	for i := range x.fill {
		x.fill[i] = tok * uint64(i+3)
	}
	w.Assign(e, ecs.Component{ID: id, Comp: &gcHolder{P: &x}})
}

//go:noinline
func newWithLocalLiteral(w *ecs.World, id ecs.ID, tok uint64) ecs.Entity {
	x := gcPayload{tok: tok, ntok: ^tok}
	for i := range x.fill {
		x.fill[i] = tok * uint64(i+3)
	}
	return w.NewEntityWith(ecs.Component{ID: id, Comp: &gcHolder{P: &x}})
}

//go:noinline
func clobberStack(depth int) uint64 {
	var buf [64]uint64
	for i := range buf {
		buf[i] = 0xdeadbeefdeadbeef + uint64(i)
	}
	if depth > 0 {
		return buf[depth%64] + clobberStack(depth-1)
	}
	return buf[3]
}

func gcEscape() {
	w := ecs.NewWorld()
	hID := ecs.ComponentID[gcHolder](&w)
	haID := ecs.ComponentID[gcHolderA](&w)
	p1 := ecs.ComponentID[gcPlain1](&w)
	for round := 0; round < 50; round++ {
		tok := uint64(5000 + round*3)
		e1 := w.NewEntity(haID)
		setLocalLiteral(&w, e1, haID, tok)
		e2 := w.NewEntity(p1)
		assignLocalLiteral(&w, e2, hID, tok+1)
		e3 := newWithLocalLiteral(&w, hID, tok+2)
		clobberStack(200)
		runtime.GC()
		clobberStack(100)
		checkArr((*gcHolderA)(w.Get(e1, haID)).P, tok, "escape/Set with a non-escaping literal")
		checkPayload((*gcHolder)(w.Get(e2, hID)).P, tok+1, "escape/Assign with a local literal")
		checkPayload((*gcHolder)(w.Get(e3, hID)).P, tok+2, "escape/NewEntityWith with a local literal")
	}
	fmt.Println("escape ok")
}


// ---- release of values handed over through the Set family ----
//
// A pointer stored in a component through World.Set / Assign / NewEntityWith / a builder with values must become
// collectable once the component, the entity or the whole population is removed — also when that call was the most
// recent one of its kind in the process (nothing in the library may keep the last value it was handed).

//go:noinline
func releaseOnce(kind int, removal int, tok uint64) {
	w := ecs.NewWorld()
	hID := ecs.ComponentID[gcHolder](&w)
	p1 := ecs.ComponentID[gcPlain1](&w)
	var e ecs.Entity
	h := gcHolder{P: trackedPayload(tok)}
	switch kind {
	case 0:
		e = w.NewEntity(hID, p1)
		w.Set(e, hID, unsafe.Pointer(&h))
	case 1:
		e = w.NewEntity(p1)
		w.Assign(e, ecs.Component{ID: hID, Comp: &h})
	case 2:
		e = w.NewEntityWith(ecs.Component{ID: hID, Comp: &h}, ecs.Component{ID: p1, Comp: &gcPlain1{}})
	default:
		e = ecs.NewBuilderWith(&w, ecs.Component{ID: hID, Comp: &h}).New()
	}
	checkPayload((*gcHolder)(w.Get(e, hID)).P, tok, "release/stored value")
	switch removal {
	case 0:
		w.RemoveEntity(e)
	case 1:
		w.Remove(e, hID)
	case 2:
		w.Batch().RemoveEntities(ecs.All(hID))
	default:
		w.Reset()
	}
}

func gcRelease() {
	kinds := []string{"World.Set", "World.Assign", "World.NewEntityWith", "Builder with values"}
	removals := []string{"RemoveEntity", "Remove(component)", "Batch.RemoveEntities", "Reset"}
	tok := uint64(900000)
	for k := range kinds {
		for r := range removals {
			before := finalized
			tok++
			releaseOnce(k, r, tok)
			clobberStack(300)
			settle()
			if finalized != before+1 {
				gcFail("release: the value handed to %s is still referenced after %s (it was the most recent value handed to the world; %d of 1 payloads collected)",
					kinds[k], removals[r], finalized-before)
			}
		}
	}
}

// ---- value sources that alias the world's own storage, at capacity boundaries ----
//
// Cloning idioms hand the library a pointer obtained from World.Get as the value of a new
// component: NewEntityWith(Component{id, w.Get(src, id)}), Assign, Set, builders. When the
// destination table is exactly full the storage grows between allocating the row and copying
// the value; the value read through the caller's pointer must still be the one written last.
func gcAlias() {
	type shape struct {
		name string
		mk   func(w *ecs.World, hID, h2ID, p1 ecs.ID, src ecs.Entity) (ecs.Entity, bool)
	}
	for _, inc := range []int{1, 2, 3, 4, 7, 16} {
		for fill := 1; fill <= 3*inc+1; fill++ {
			for variant := 0; variant < 6; variant++ {
				w := ecs.NewWorld(ecs.NewConfig().WithCapacityIncrement(inc).WithRelationCapacityIncrement(inc))
				hID := ecs.ComponentID[gcHolder](&w)
				h2ID := ecs.ComponentID[gcHolder2](&w)
				p1 := ecs.ComponentID[gcPlain1](&w)
				sID := ecs.ComponentID[gcStrings](&w)
				base := uint64(100000 + inc*1000 + fill*10 + variant)
				// fill the table {hID,h2ID,p1,sID} with `fill` entities
				es := make([]ecs.Entity, fill)
				for i := range es {
					es[i] = w.NewEntity(hID, h2ID, p1, sID)
					(*gcHolder)(w.Get(es[i], hID)).P = newPayload(base + uint64(i)*7919)
					h2 := (*gcHolder2)(w.Get(es[i], h2ID))
					h2.A, h2.S, h2.P = int64(base)+int64(i), []uint64{base, uint64(i)}, newPayload(base+uint64(i)*7919+1)
					*(*gcPlain1)(w.Get(es[i], p1)) = gcPlain1{X: int64(base) + int64(i), Y: -int64(base) - int64(i)}
					*(*gcStrings)(w.Get(es[i], sID)) = gcStrings{N: int64(i), A: fmt.Sprint("a", base, i), B: fmt.Sprint("b", base, i)}
				}
				si := (fill - 1) / 2
				src := es[si]
				comps := []ecs.Component{
					{ID: hID, Comp: w.Get(src, hID)}, {ID: h2ID, Comp: w.Get(src, h2ID)},
					{ID: p1, Comp: w.Get(src, p1)}, {ID: sID, Comp: w.Get(src, sID)},
				}
				var clones []ecs.Entity
				what := ""
				switch variant {
				case 0:
					what = "NewEntityWith"
					clones = append(clones, w.NewEntityWith(comps...))
				case 1:
					what = "Assign (moves into the source's table)"
					e := w.NewEntity()
					w.Assign(e, comps...)
					clones = append(clones, e)
				case 2:
					what = "NewBuilderWith.New"
					clones = append(clones, ecs.NewBuilderWith(&w, comps...).New())
				case 3:
					what = "NewBuilderWith.NewBatchQ"
					q := ecs.NewBuilderWith(&w, comps...).NewBatchQ(inc + 1)
					for q.Next() {
						clones = append(clones, q.Entity())
					}
				case 4:
					what = "NewBuilderWith.Add"
					e := w.NewEntity()
					ecs.NewBuilderWith(&w, comps...).Add(e)
					clones = append(clones, e)
				case 5:
					what = "Assign of part of the components (p1 present before)"
					e := w.NewEntity(p1)
					w.Assign(e, comps[0], comps[1], comps[3])
					w.Set(e, p1, w.Get(src, p1))
					clones = append(clones, e)
				}
				runtime.GC()
				for _, c := range clones {
					ctx := fmt.Sprintf("alias/%s inc=%d fill=%d", what, inc, fill)
					tok := base + uint64(si)*7919
					checkPayload((*gcHolder)(w.Get(c, hID)).P, tok, ctx+" holder")
					h2 := (*gcHolder2)(w.Get(c, h2ID))
					checkPayload(h2.P, tok+1, ctx+" holder2")
					if h2.A != int64(base)+int64(si) || len(h2.S) != 2 || h2.S[0] != base || h2.S[1] != uint64(si) {
						gcFail("%s: holder2 scalar/slice fields lost: %+v", ctx, *h2)
					}
					if pl := *(*gcPlain1)(w.Get(c, p1)); pl.X != int64(base)+int64(si) || pl.Y != -int64(base)-int64(si) {
						gcFail("%s: plain component lost: %+v", ctx, pl)
					}
					if st := *(*gcStrings)(w.Get(c, sID)); st.N != int64(si) || st.A != fmt.Sprint("a", base, si) || st.B != fmt.Sprint("b", base, si) {
						gcFail("%s: string component lost: %+v", ctx, st)
					}
				}
				// the sources themselves must be untouched
				for i, e := range es {
					checkPayload((*gcHolder)(w.Get(e, hID)).P, base+uint64(i)*7919, "alias/source row after clone")
				}
			}
		}
	}
	fmt.Println("alias ok")
}

var _ = unsafe.Pointer(nil)
