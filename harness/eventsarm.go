package main

// Re-entrant listener arm (C11, C09, C12): listeners that act on the world from inside their
// callback — something the sequential Lean model (listeners are observers there) does not express.
//
// Oracle: a replayer driven only by the events. A listener subscribed to everything keeps a shadow
// of every entity's component set; after every top-level operation the shadow must equal the
// world (each change to an entity was reported, entity by entity), nothing may stay locked once
// the operation has returned, and structural operations must work again.
//
// What the listener does inside callbacks (all legal: the world is unlocked while non-removal
// events are delivered, and SetListener may be called at any time):
//   - on the first event of a batch operation it runs another batch operation on entities of
//     unrelated tables (disjoint from the outer operation's entities);
//   - a one-shot listener removes itself (SetListener(nil)) when it has seen its n-th event, also
//     when that event is the last removal event of Batch.RemoveEntities; it is installed again
//     before the next operation and the shadow is re-synchronised from the world.

import (
	"fmt"
	"runtime/debug"
	"sort"

	"github.com/mlange-42/arche/ecs"
	"github.com/mlange-42/arche/ecs/event"
)

type evA struct{ V int64 }
type evB struct{ V int64 }
type evC struct{ V int64 }
type evD struct{ V int64 }
type evE struct{ V int64 }
type evRel struct{ ecs.Relation }

type evShadow struct {
	mask map[ecs.Entity]map[uint8]bool
}

type evListener struct {
	w        *ecs.World
	sh       *evShadow
	ids      []ecs.ID
	nested   func()
	oneShot  int // remove itself after this many events (0: never)
	seen     int
	detached bool
	errs     []string
}

func (l *evListener) Notify(w *ecs.World, e ecs.EntityEvent) {
	l.seen++
	cur, ok := l.sh.mask[e.Entity]
	if e.EventTypes.Contains(event.EntityCreated) {
		if ok {
			l.errs = append(l.errs, fmt.Sprintf("a second creation event for entity %v, which was created before and not removed since", e.Entity))
		}
		cur = map[uint8]bool{}
		ok = true
	}
	if !ok && !e.EventTypes.Contains(event.EntityRemoved) {
		l.errs = append(l.errs, fmt.Sprintf("event for unknown entity %v (types %06b)", e.Entity, e.EventTypes))
		cur = map[uint8]bool{}
	}
	for _, id := range e.AddedIDs {
		cur[ecs.VerifIDValue(id)] = true
	}
	for _, id := range e.RemovedIDs {
		delete(cur, ecs.VerifIDValue(id))
	}
	if e.EventTypes.Contains(event.EntityRemoved) {
		delete(l.sh.mask, e.Entity)
	} else {
		l.sh.mask[e.Entity] = cur
	}
	if l.nested != nil && !w.IsLocked() {
		n := l.nested
		l.nested = nil
		n()
	}
	if l.oneShot > 0 && l.seen == l.oneShot {
		l.detached = true
		w.SetListener(nil)
	}
}
func (l *evListener) Subscriptions() event.Subscription { return event.All }
func (l *evListener) Components() *ecs.Mask { return nil }

func wo(m ecs.Mask, ids ...ecs.ID) ecs.Filter {
	f := m.Without(ids...)
	return &f
}

func evMaskOf(w *ecs.World, e ecs.Entity) map[uint8]bool {
	m := map[uint8]bool{}
	for _, id := range w.Ids(e) {
		m[ecs.VerifIDValue(id)] = true
	}
	return m
}

func evSame(a, b map[uint8]bool) bool {
	if len(a) != len(b) {
		return false
	}
	for k := range a {
		if !b[k] {
			return false
		}
	}
	return true
}

func evKeys(m map[uint8]bool) []int {
	r := []int{}
	for k := range m {
		r = append(r, int(k))
	}
	sort.Ints(r)
	return r
}

// evCompare: the shadow built from the events equals the world
func evCompare(w *ecs.World, sh *evShadow, what string) error {
	alive := w.VerifAliveEntities()
	seen := map[ecs.Entity]bool{}
	for _, e := range alive {
		seen[e] = true
		m, ok := sh.mask[e]
		if !ok {
			return fmt.Errorf("%s: entity %v exists in the world but no creation event was received", what, e)
		}
		if wm := evMaskOf(w, e); !evSame(m, wm) {
			return fmt.Errorf("%s: entity %v: components replayed from the events %v, in the world %v (a change was not reported, or reported for another entity)", what, e, evKeys(m), evKeys(wm))
		}
	}
	for e := range sh.mask {
		if !seen[e] {
			return fmt.Errorf("%s: entity %v was removed from the world but no removal event was received", what, e)
		}
	}
	return nil
}

func evResync(w *ecs.World, sh *evShadow) {
	sh.mask = map[ecs.Entity]map[uint8]bool{}
	for _, e := range w.VerifAliveEntities() {
		sh.mask[e] = evMaskOf(w, e)
	}
}

func eventsArm(seed uint64, rounds int) (steps int, err error) {
	defer func() {
		if x := recover(); x != nil {
			err = fmt.Errorf("panic in a history with a re-entrant listener (seed %d): %v\n%s", seed, x, debug.Stack())
		}
	}()
	r := &rng{s: seed*7919 + 17}
	for round := 0; round < rounds; round++ {
		w := ecs.NewWorld(ecs.NewConfig().WithCapacityIncrement(8).WithRelationCapacityIncrement(4))
		a, b, c, d, e5 := ecs.ComponentID[evA](&w), ecs.ComponentID[evB](&w), ecs.ComponentID[evC](&w), ecs.ComponentID[evD](&w), ecs.ComponentID[evE](&w)
		rel := ecs.ComponentID[evRel](&w)
		sh := &evShadow{mask: map[ecs.Entity]map[uint8]bool{}}
		l := &evListener{w: &w, sh: sh}
		w.SetListener(l)
		log := []string{}
		check := func(what string) error {
			log = append(log, what)
			if w.IsLocked() {
				return fmt.Errorf("%s: the world is locked although no query is open and no event is being delivered\nhistory: %v", what, log)
			}
			if l.detached {
				// the one-shot listener removed itself: events after that point were not observed
				l.detached = false
				l.oneShot = 0
				evResync(&w, sh)
				w.SetListener(l)
			} else if err := evCompare(&w, sh, what); err != nil {
				return fmt.Errorf("%v\nhistory: %v", err, log)
			}
			if len(l.errs) > 0 {
				return fmt.Errorf("%s: %s\nhistory: %v", what, l.errs[0], log)
			}
			// structural operations must work again
			probe := w.NewEntity(e5)
			w.RemoveEntity(probe)
			return nil
		}
		targets := []ecs.Entity{w.NewEntity(), w.NewEntity(), w.NewEntity()}
		// populate several tables: [A], [A,C], [A,D], [D], [D,C], [A,rel]→t
		for i := 0; i < 4+r.intn(4); i++ {
			w.NewEntity(a)
			w.NewEntity(a, c)
			w.NewEntity(d)
			w.NewEntity(d, c)
			if r.chance(50) {
				w.NewEntity(a, d)
			}
			ecs.NewBuilder(&w, a, rel).WithRelation(rel).New(targets[r.intn(3)])
		}
		if err := check("populate"); err != nil {
			return steps, err
		}
		for step := 0; step < 12; step++ {
			steps++
			l.seen = 0
			switch r.intn(7) {
			case 0: // Batch.Add over several tables, nested Batch.Add on unrelated tables
				l.nested = func() { w.Batch().Add(wo(ecs.All(d), a, e5), e5) }
				n := w.Batch().Add(wo(ecs.All(a), b, d), b)
				l.nested = nil
				if err := check(fmt.Sprintf("Batch.Add(All(A).Without(B,D), B) [%d] with a nested Batch.Add on the D tables in the first callback", n)); err != nil {
					return steps, err
				}
			case 1: // Batch.Remove with nested Batch.Remove
				l.nested = func() { w.Batch().Remove(wo(ecs.All(d, e5), a), e5) }
				n := w.Batch().Remove(wo(ecs.All(a, b), d), b)
				l.nested = nil
				if err := check(fmt.Sprintf("Batch.Remove(All(A,B).Without(D), B) [%d] with a nested Batch.Remove in the first callback", n)); err != nil {
					return steps, err
				}
			case 2: // Relations.SetBatch with nested batch op
				l.nested = func() { w.Batch().Add(wo(ecs.All(d), a, e5), e5) }
				n := w.Relations().SetBatch(ecs.All(rel), rel, targets[r.intn(3)])
				l.nested = nil
				if err := check(fmt.Sprintf("Relations.SetBatch [%d] with a nested Batch.Add in the first callback", n)); err != nil {
					return steps, err
				}
			case 3: // one-shot listener detaching during Batch.RemoveEntities, at its last event
				f := ecs.All(a, c)
				q := w.Query(f)
				cnt := q.Count()
				q.Close()
				if cnt > 0 {
					// at the very last removal event of the call (removing itself earlier makes the unchanged
					// library dereference the removed listener for the next entity — outside the listed
					// properties, see DESIGN.md, observations)
					l.oneShot = cnt
					n := w.Batch().RemoveEntities(f)
					if err := check(fmt.Sprintf("Batch.RemoveEntities(All(A,C)) [%d] with a listener that removes itself at event %d of %d", n, l.oneShot, cnt)); err != nil {
						return steps, err
					}
				}
			case 4:
				// (a listener that removes itself while the events of a batch *exchange* are being delivered
				// crashes the unchanged library with a nil dereference in notifyQuery; no listed property
				// speaks about that, so it is not exercised here — see DESIGN.md, observations)
				switch r.intn(3) {
				case 0:
					w.NewEntity(d)
					if err := check("create"); err != nil {
						return steps, err
					}
				case 1: // batch creation whose first callback creates one more entity of the same table
					n := 2 + r.intn(3)
					l.nested = func() { w.NewEntity(a, c) }
					ecs.NewBuilder(&w, a, c).NewBatch(n)
					l.nested = nil
					if err := check(fmt.Sprintf("Builder(A,C).NewBatch(%d) with a nested NewEntity(A,C) in the first callback", n)); err != nil {
						return steps, err
					}
				default: // the same with a relation target
					n := 2 + r.intn(3)
					tg := targets[r.intn(3)]
					l.nested = func() { ecs.NewBuilder(&w, a, rel).WithRelation(rel).New(tg) }
					ecs.NewBuilder(&w, a, rel).WithRelation(rel).NewBatch(n, tg)
					l.nested = nil
					if err := check(fmt.Sprintf("Builder(A,Rel).NewBatch(%d, target) with a nested New(target) into the same table in the first callback", n)); err != nil {
						return steps, err
					}
				}
			case 5: // refill
				for i := 0; i < 3; i++ {
					w.NewEntity(a, c)
					w.NewEntity(a)
					w.NewEntity(d)
					ecs.NewBuilder(&w, a, rel).WithRelation(rel).New(targets[r.intn(3)])
				}
				if err := check("refill"); err != nil {
					return steps, err
				}
			default: // nested single-entity operation inside a batch callback
				var victim ecs.Entity
				for _, x := range w.VerifAliveEntities() {
					if w.Has(x, d) && !w.Has(x, a) && !w.Has(x, c) {
						victim = x
						break
					}
				}
				if !victim.IsZero() {
					l.nested = func() { w.Add(victim, c) }
				}
				n := w.Batch().Exchange(wo(ecs.All(a), e5, d), []ecs.ID{e5}, nil)
				l.nested = nil
				if err := check(fmt.Sprintf("Batch.Exchange(+E) [%d] with a nested World.Add on an unrelated entity in the first callback", n)); err != nil {
					return steps, err
				}
			}
		}
	}
	return steps, nil
}
