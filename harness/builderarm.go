package main

// Builder arm: random sequences of builder calls, registrations, locks and uses on ONE generic filter object,
// against a reference of the documented configuration semantics (generic/query_generated.go, generic/compiled.go):
// what a generic filter selects is decided by the configuration current when it is used — whatever happened to the
// same object before (earlier compilations, refused calls, registration cycles, a first use in a locked world).
// Oracle: the expected panic / no panic of every call, and the entity set of every query against the set computed
// entity by entity from World.Mask and Relations.Get. A second, always registered filter checks that nothing done to
// the filter under test disturbs another registration.

import (
	"fmt"
	"sort"
	"strings"

	"github.com/mlange-42/arche/ecs"
	"github.com/mlange-42/arche/generic"
)

type GLate struct{ V int64 }

type bref struct {
	with       []string // With(...) calls, by name
	without    []string
	exclusive  bool
	relSet     bool
	relType    string // "Rel" or "X"
	hasTarget  bool
	target     ecs.Entity
	registered bool
}

func tryCall(f func()) (msg string, panicked bool) {
	defer func() {
		if x := recover(); x != nil {
			msg = fmt.Sprint(x)
			panicked = true
		}
	}()
	f()
	return "", false
}

func builderArm(seed uint64, rounds int) (int, error) {
	total := 0
	for i := 0; i < rounds; i++ {
		r := &rng{s: seed*7919 + uint64(i)*31 + 5}
		n, err := builderRun(r, 40)
		total += n
		if err != nil {
			return total, fmt.Errorf("seed %d round %d: %v", seed, i, err)
		}
	}
	return total, nil
}

func builderRun(r *rng, steps int) (int, error) {
	w := ecs.NewWorld(ecs.NewConfig().WithCapacityIncrement(4).WithRelationCapacityIncrement(2))
	a0 := ecs.ComponentID[GA0](&w)
	x := ecs.ComponentID[GX](&w)
	y := ecs.ComponentID[GY](&w)
	rel := ecs.ComponentID[GRel](&w)
	idOf := map[string]ecs.ID{"A0": a0, "X": x, "Y": y, "Rel": rel}
	lateRegistered := false
	var lateID ecs.ID
	t1, t2 := w.NewEntity(), w.NewEntity()
	targets := []ecs.Entity{t1, t2, {}}
	// entities over every combination of A0, X, Y and the relation with each target
	for m := 0; m < 16; m++ {
		ids := []ecs.ID{}
		if m&1 != 0 {
			ids = append(ids, a0)
		}
		if m&2 != 0 {
			ids = append(ids, x)
		}
		if m&4 != 0 {
			ids = append(ids, y)
		}
		if m&8 != 0 {
			for _, tg := range targets {
				b := ecs.NewBuilder(&w, append(append([]ecs.ID{}, ids...), rel)...).WithRelation(rel)
				b.New(tg)
				if tg == t1 {
					b.New(tg)
				}
			}
			continue
		}
		w.NewEntity(ids...)
	}
	// another filter, registered first (cache id 0), must stay intact whatever happens to the filter under test
	other := generic.NewFilter1[GX]()
	other.Register(&w)
	otherWant := 0
	for _, e := range w.VerifAliveEntities() {
		if w.Has(e, x) {
			otherWant++
		}
	}

	f := generic.NewFilter1[GA0]()
	ref := &bref{}
	log := []string{}
	var lockQ *ecs.Query
	fail := func(format string, args ...interface{}) error {
		if lockQ != nil {
			lockQ.Close()
		}
		return fmt.Errorf("%s\n  calls on one Filter1[A0]: %s", fmt.Sprintf(format, args...), strings.Join(log, "; "))
	}
	has := func(l []string, n string) bool {
		for _, s := range l {
			if s == n {
				return true
			}
		}
		return false
	}
	// would compiling the current configuration panic? (only evaluated when a compilation happens)
	compilePanics := func() (bool, string) {
		if lockQ != nil && !lateRegistered && has(ref.with, "Late") {
			return true, "a new component type cannot be registered in a locked world"
		}
		if ref.relSet {
			if ref.relType == "X" {
				if !has(ref.with, "X") {
					return true, "relation component not in filter"
				}
				return true, "component type is not a relation"
			}
			if !has(ref.with, "Rel") {
				return true, "relation component not in filter"
			}
		}
		return false, ""
	}
	// the entities the current configuration selects, optionally with a per-query target
	expected := func(tg *ecs.Entity) []ecs.Entity {
		res := []ecs.Entity{}
		inc := []ecs.ID{a0}
		for _, n := range ref.with {
			if n == "Late" {
				inc = append(inc, lateID)
			} else {
				inc = append(inc, idOf[n])
			}
		}
		for _, e := range w.VerifAliveEntities() {
			m := w.Mask(e)
			ok := true
			for _, id := range inc {
				if !m.Get(id) {
					ok = false
				}
			}
			if ref.exclusive {
				incMask := ecs.All(inc...)
				if m != incMask {
					ok = false
				}
			} else {
				for _, n := range ref.without {
					if m.Get(idOf[n]) {
						ok = false
					}
				}
			}
			if ok && ref.relSet {
				var want *ecs.Entity
				if ref.hasTarget {
					want = &ref.target
				} else if tg != nil {
					want = tg
				}
				if want != nil && w.Relations().Get(e, rel) != *want {
					ok = false
				}
			}
			if ok {
				res = append(res, e)
			}
		}
		sort.Slice(res, func(i, j int) bool { return res[i].ID() < res[j].ID() })
		return res
	}
	collect := func(q *ecs.Query) []ecs.Entity {
		res := []ecs.Entity{}
		for q.Next() {
			res = append(res, q.Entity())
		}
		sort.Slice(res, func(i, j int) bool { return res[i].ID() < res[j].ID() })
		return res
	}
	same := func(a, b []ecs.Entity) bool {
		if len(a) != len(b) {
			return false
		}
		for i := range a {
			if a[i] != b[i] {
				return false
			}
		}
		return true
	}
	n := 0
	for step := 0; step < steps; step++ {
		n++
		op := r.intn(17)
		switch {
		case op <= 4: // With / Without / Exclusive
			var name string
			var call func()
			wantPanic := ref.registered
			switch op {
			case 0:
				name = "With(X)"
				call = func() { f.With(generic.T[GX]()) }
			case 1:
				name = "With(Rel)"
				call = func() { f.With(generic.T[GRel]()) }
			case 2:
				name = "With(Late)"
				call = func() { f.With(generic.T[GLate]()) }
			case 3:
				name = "Without(Y)"
				call = func() { f.Without(generic.T[GY]()) }
				wantPanic = wantPanic || ref.exclusive
			default:
				name = "Exclusive()"
				call = func() { f.Exclusive() }
				wantPanic = wantPanic || len(ref.without) > 0
			}
			if op == 2 && (r.intn(3) != 0 || has(ref.with, "Late")) {
				continue // the late type joins rarely, and once
			}
			log = append(log, name)
			msg, p := tryCall(call)
			if p != wantPanic {
				return n, fail("%s: panicked=%v (%s), expected panic=%v", name, p, msg, wantPanic)
			}
			if !p {
				switch op {
				case 0:
					ref.with = append(ref.with, "X")
				case 1:
					ref.with = append(ref.with, "Rel")
				case 2:
					ref.with = append(ref.with, "Late")
				case 3:
					ref.without = append(ref.without, "Y")
				default:
					ref.exclusive = true
				}
			}
		case op <= 7: // WithRelation
			wantPanic := ref.registered
			var name string
			var call func()
			kind := op
			tg := targets[r.intn(3)]
			switch kind {
			case 5:
				name = "WithRelation(Rel)"
				call = func() { f.WithRelation(generic.T[GRel]()) }
			case 6:
				name = fmt.Sprintf("WithRelation(Rel, %v)", tg)
				call = func() { f.WithRelation(generic.T[GRel](), tg) }
			default:
				if r.intn(4) != 0 {
					continue
				}
				name = "WithRelation(X)"
				call = func() { f.WithRelation(generic.T[GX]()) }
			}
			log = append(log, name)
			msg, p := tryCall(call)
			if p != wantPanic {
				return n, fail("%s: panicked=%v (%s), expected panic=%v", name, p, msg, wantPanic)
			}
			if !p {
				ref.relSet = true
				ref.relType = "Rel"
				if kind == 7 {
					ref.relType = "X"
				}
				if kind == 6 {
					ref.hasTarget = true
					ref.target = tg
				}
			}
		case op <= 11: // Query() / Query(target) / Filter() as a value / Filter(target) as a value
			withTarget := op == 9 || op == 11
			asValue := op >= 10
			if withTarget && !ref.relSet {
				continue
			}
			tg := targets[r.intn(3)]
			name := "Query("
			if asValue {
				name = "Filter("
			}
			if withTarget {
				name += fmt.Sprint(tg)
			}
			name += ")"
			if lockQ != nil {
				name += " [world locked]"
			}
			log = append(log, name)
			wantPanic, why := false, ""
			// a compilation in an unlocked world registers the types it names first, even when it is refused afterwards
			lateNow := !ref.registered && has(ref.with, "Late") && !lateRegistered && lockQ == nil
			if !ref.registered {
				wantPanic, why = compilePanics()
			}
			if !wantPanic && withTarget && ref.registered {
				wantPanic, why = true, "target on a registered filter"
			}
			if !wantPanic && withTarget && ref.hasTarget {
				wantPanic, why = true, "target on a filter with a fixed target"
			}
			var got []ecs.Entity
			msg, p := tryCall(func() {
				if asValue {
					var fl ecs.Filter
					if withTarget {
						fl = f.Filter(&w, tg)
					} else {
						fl = f.Filter(&w)
					}
					q := w.Query(fl)
					got = collect(&q)
				} else {
					var q generic.Query1[GA0]
					if withTarget {
						q = f.Query(&w, tg)
					} else {
						q = f.Query(&w)
					}
					got = collect(&q.Query)
				}
			})
			if p != wantPanic {
				return n, fail("%s: panicked=%v (%s), expected panic=%v (%s)", name, p, msg, wantPanic, why)
			}
			if lateNow {
				lateRegistered = true
				lateID = ecs.ComponentID[GLate](&w)
			}
			if !p {
				var tp *ecs.Entity
				if withTarget {
					tp = &tg
				}
				want := expected(tp)
				if !same(got, want) {
					return n, fail("%s selects %d entities %v; the configuration selects %d %v", name, len(got), got, len(want), want)
				}
			}
		case op == 12: // Register
			if lockQ != nil {
				continue
			}
			log = append(log, "Register")
			wantPanic, why := ref.registered, "already registered"
			lateNow := !ref.registered && has(ref.with, "Late") && !lateRegistered
			if !wantPanic {
				wantPanic, why = compilePanics()
			}
			msg, p := tryCall(func() { f.Register(&w) })
			if p != wantPanic {
				return n, fail("Register: panicked=%v (%s), expected panic=%v (%s)", p, msg, wantPanic, why)
			}
			if lateNow {
				lateRegistered = true
				lateID = ecs.ComponentID[GLate](&w)
			}
			if !p {
				ref.registered = true
			}
		case op == 13: // Unregister
			if lockQ != nil {
				continue
			}
			log = append(log, "Unregister")
			wantPanic := !ref.registered
			msg, p := tryCall(func() { f.Unregister(&w) })
			if p != wantPanic {
				return n, fail("Unregister: panicked=%v (%s), expected panic=%v (the filter is %sregistered)", p, msg, wantPanic, map[bool]string{true: "", false: "not "}[ref.registered])
			}
			if !p {
				ref.registered = false
			}
		case op <= 15: // lock / unlock the world through an open query
			if lockQ == nil {
				q := w.Query(ecs.All())
				lockQ = &q
				log = append(log, "lock")
			} else {
				lockQ.Close()
				lockQ = nil
				log = append(log, "unlock")
			}
		default: // an entity appears or disappears (unlocked worlds only)
			if lockQ != nil {
				continue
			}
			if r.intn(2) == 0 {
				e := w.NewEntity(a0, x)
				_ = e
				otherWant++
				log = append(log, "NewEntity(A0,X)")
			} else {
				b := ecs.NewBuilder(&w, a0, rel).WithRelation(rel)
				b.New(targets[r.intn(3)])
				log = append(log, "New(A0,Rel->t)")
			}
		}
		// the world is locked exactly when the arm holds its lock query
		if w.IsLocked() != (lockQ != nil) {
			return n, fail("world locked=%v although the arm %s a query open", w.IsLocked(), map[bool]string{true: "holds", false: "does not hold"}[lockQ != nil])
		}
		// the other registration is untouched
		var oc int
		msg, p := tryCall(func() {
			q := other.Query(&w)
			oc = q.Count()
			q.Close()
		})
		if p || oc != otherWant {
			return n, fail("another registered filter (Filter1[X]) is disturbed: panicked=%v (%s), selects %d, expected %d", p, msg, oc, otherWant)
		}
	}
	if lockQ != nil {
		lockQ.Close()
	}
	return n, nil
}
