package main

// Runner: executes the line protocol (DESIGN.md appendix D) against the real library,
// in-process, one canonical result line per operation plus event lines.

import (
	"encoding/json"
	"fmt"
	"reflect"
	"runtime"
	"sort"
	"strconv"
	"strings"
	"unsafe"

	"github.com/mlange-42/arche/ecs"
	"github.com/mlange-42/arche/ecs/event"
	"github.com/mlange-42/arche/filter"
	"github.com/mlange-42/arche/listener"
)

type qstate struct {
	q      ecs.Query
	closed bool
	pos    bool
	batch  bool
}

type cfstate struct {
	cached *ecs.CachedFilter
	orig   ecs.Filter
}

type subSpec struct {
	subs  int
	comps []int
	has   bool
}

type Runner struct {
	w        *ecs.World
	bits     int
	started  bool
	comps    []*compKind
	resIDs   []ecs.ResID
	resToks  map[int]*int
	handles  []ecs.Entity
	queries  []*qstate
	cfilters []*cfstate
	dumps    []ecs.EntityDump
	events   []string
	disp     *listener.Dispatch
	subCount int
	keep     []interface{} // keeps listener objects alive
	gcEvery  int
	opsSeen  int
	jsonSeen int // JSON documents written so far: selects the textual form (compact / indented / padded)
	// statistics for evidence
	opCount    map[string]int
	panicCount map[string]int
}

func NewRunner() *Runner {
	return &Runner{opCount: map[string]int{}, panicCount: map[string]int{}, resToks: map[int]*int{}}
}

type badRef struct{}
type badOp struct{}

func showEnt(e ecs.Entity) string { return fmt.Sprintf("%d:%d", e.ID(), e.Generation()) }

func classify(msg string) string {
	has := func(s string) bool { return strings.Contains(msg, s) }
	switch {
	case has("locked world"):
		return "locked"
	case has("dead entity a relation target"):
		return "dead-target"
	case has("dead entity"):
		return "dead"
	case has("entity already has component"):
		return "has-comp"
	case has("can't remove"):
		return "no-comp"
	case has("added and removed in the same"):
		return "add-rem"
	case has("already has a relation component"):
		return "second-rel"
	case has("exchange operation has no effect"):
		return "no-effect-rel"
	case has("resulting entity has no component"), has("does not have relation component"):
		return "rel-missing"
	case has("is not a relation component"), has("not a relation component"):
		if has("or it is not a relation component") {
			return "q-rel"
		}
		return "not-rel"
	case has("no components given to assign"):
		return "no-comps-assign"
	case has("can't copy component into entity"):
		return "copy-missing"
	case has("positive number of entities"):
		return "count"
	case has("builder has no relation"):
		return "builder-no-rel"
	case has("query index out of range"), has("negative index"):
		return "q-range"
	case has("step size must be positive"):
		return "q-step"
	case has("was already added"):
		return "res-dup"
	case has("is not present"):
		return "res-missing"
	case has("filter is already registered"):
		return "filter-registered"
	case has("no filter for id found"):
		return "filter-unknown"
	case has("exceeded the maximum"):
		return "limit"
	case has("fresh or reset world"):
		return "load-used"
	case has("run out of the maximum"):
		return "lock-limit"
	case has("unbalanced unlock"):
		return "unbalanced"
	case has("invalid CapacityIncrement"):
		return "config"
	}
	return "crash"
}

// ---- token parsing ----

type toks struct {
	t []string
	i int
}

func (t *toks) next() string {
	if t.i >= len(t.t) {
		panic(badOp{})
	}
	s := t.t[t.i]
	t.i++
	return s
}
func (t *toks) nat() int {
	s := t.next()
	n, err := strconv.Atoi(s)
	if err != nil || n < 0 || strings.HasPrefix(s, "+") || strings.HasPrefix(s, "-") {
		panic(badOp{})
	}
	return n
}
func (t *toks) int() int {
	n, err := strconv.Atoi(t.next())
	if err != nil {
		panic(badOp{})
	}
	return n
}
func (t *toks) ids() []int {
	n := t.nat()
	r := make([]int, n)
	for i := range r {
		r[i] = t.nat()
	}
	return r
}
func (t *toks) pairs() [][2]int {
	n := t.nat()
	r := make([][2]int, n)
	for i := range r {
		r[i] = [2]int{t.nat(), t.nat()}
	}
	return r
}
func (t *toks) more() bool { return t.i < len(t.t) }
func (t *toks) end() {
	if t.i != len(t.t) {
		panic(badOp{})
	}
}

// deferred reference errors: parsing continues (syntax errors win), then badRef is raised
type refErr struct{ bad bool }

func (r *Runner) ent(t *toks, re *refErr) ecs.Entity {
	s := t.next()
	if s == "e-" {
		return ecs.Entity{}
	}
	if strings.HasPrefix(s, "e") {
		k, err := strconv.Atoi(s[1:])
		if err != nil || k < 0 || strings.HasPrefix(s[1:], "+") {
			panic(badOp{})
		}
		if k >= len(r.handles) {
			re.bad = true
			return ecs.Entity{}
		}
		return r.handles[k]
	}
	if strings.HasPrefix(s, "E") {
		parts := strings.Split(s[1:], ":")
		if len(parts) != 2 {
			panic(badOp{})
		}
		a, e1 := strconv.ParseUint(parts[0], 10, 32)
		b, e2 := strconv.ParseUint(parts[1], 10, 32)
		if e1 != nil || e2 != nil {
			panic(badOp{})
		}
		return ecs.VerifNewEntity(uint32(a), uint32(b))
	}
	panic(badOp{})
}

func (r *Runner) idOf(i int) ecs.ID {
	if i >= len(r.comps) {
		// unregistered component ids are outside the protocol
		panic(badOp{})
	}
	return r.comps[i].id
}

func (r *Runner) idList(l []int) []ecs.ID {
	if len(l) == 0 {
		return nil
	}
	res := make([]ecs.ID, len(l))
	for i, x := range l {
		res[i] = r.idOf(x)
	}
	return res
}

func (r *Runner) compList(l [][2]int) []ecs.Component {
	res := make([]ecs.Component, len(l))
	for i, x := range l {
		if x[0] >= len(r.comps) {
			panic(badOp{})
		}
		res[i] = ecs.Component{ID: r.comps[x[0]].id, Comp: r.comps[x[0]].newVal(x[1])}
	}
	return res
}

func (r *Runner) filter(t *toks, re *refErr) ecs.Filter {
	s := t.next()
	switch s {
	case "A":
		m := ecs.All(r.idList(t.ids())...)
		return m
	case "W":
		a := t.ids()
		b := t.ids()
		f := ecs.All(r.idList(a)...).Without(r.idList(b)...)
		return &f
	case "X":
		f := ecs.All(r.idList(t.ids())...).Exclusive()
		return &f
	case "R":
		inner := r.filter(t, re)
		e := r.ent(t, re)
		f := ecs.NewRelationFilter(inner, e)
		return &f
	case "&":
		l := r.filter(t, re)
		rr := r.filter(t, re)
		return filter.And(l, rr)
	case "|":
		l := r.filter(t, re)
		rr := r.filter(t, re)
		return filter.Or(l, rr)
	case "^":
		l := r.filter(t, re)
		rr := r.filter(t, re)
		return filter.XOr(l, rr)
	case "!":
		return filter.Not(r.filter(t, re))
	case "ANY":
		return filter.Any(r.idList(t.ids())...)
	case "NONE":
		return filter.NoneOf(r.idList(t.ids())...)
	case "ANYNOT":
		return filter.AnyNot(r.idList(t.ids())...)
	case "C":
		k := t.nat()
		if k >= len(r.cfilters) {
			re.bad = true
			return ecs.All()
		}
		return r.cfilters[k].cached
	}
	panic(badOp{})
}

// ---- events ----

func idsOfMask(m *ecs.Mask, bits int) []int {
	res := []int{}
	for i := 0; i < bits; i++ {
		if m.Get(ecs.VerifID(uint8(i))) {
			res = append(res, i)
		}
	}
	return res
}

func joinInts(l []int) string {
	s := make([]string, len(l))
	for i, x := range l {
		s[i] = strconv.Itoa(x)
	}
	return strings.Join(s, ",")
}

func sortedIDs(ids []ecs.ID) []int {
	res := make([]int, len(ids))
	for i, id := range ids {
		res[i] = int(ecs.VerifIDValue(id))
	}
	sort.Ints(res)
	return res
}

func optID(id *ecs.ID) string {
	if id == nil {
		return "-"
	}
	return strconv.Itoa(int(ecs.VerifIDValue(*id)))
}

func (r *Runner) relOf(w *ecs.World, e ecs.Entity) (ecs.ID, bool) {
	for _, id := range w.Ids(e) {
		k := int(ecs.VerifIDValue(id))
		if k < len(r.comps) && r.comps[k].isRel {
			return id, true
		}
	}
	return ecs.ID{}, false
}

func (r *Runner) onEvent(sub int) func(w *ecs.World, e ecs.EntityEvent) {
	return func(w *ecs.World, e ecs.EntityEvent) {
		alive := w.Alive(e.Entity)
		cur := "-"
		if alive {
			if rel, ok := r.relOf(w, e.Entity); ok {
				cur = showEnt(w.Relations().Get(e.Entity, rel))
			}
		}
		b01 := func(b bool) string {
			if b {
				return "1"
			}
			return "0"
		}
		vals := []string{}
		if alive {
			for _, id := range w.Ids(e.Entity) {
				k := int(ecs.VerifIDValue(id))
				val := "?"
				if k < len(r.comps) {
					if p := w.Get(e.Entity, id); p == nil {
						val = "nil"
					} else {
						val = r.comps[k].readVal(p)
					}
				}
				vals = append(vals, fmt.Sprintf("%d=%s", k, val))
			}
		}
		r.events = append(r.events, fmt.Sprintf("! %d %s +%s -%s a%s r%s %s %s %s %d L%s A%s T%s V[%s]",
			sub, showEnt(e.Entity), joinInts(idsOfMask(&e.Added, r.bits)), joinInts(idsOfMask(&e.Removed, r.bits)),
			joinInts(sortedIDs(e.AddedIDs)), joinInts(sortedIDs(e.RemovedIDs)),
			optID(e.OldRelation), optID(e.NewRelation), showEnt(e.OldTarget), int(e.EventTypes),
			b01(w.IsLocked()), b01(alive), cur, strings.Join(vals, ",")))
	}
}

func (r *Runner) sub(t *toks) subSpec {
	s := subSpec{subs: t.nat()}
	x := t.next()
	if x == "-" {
		return s
	}
	if x != "C" {
		panic(badOp{})
	}
	s.has = true
	s.comps = t.ids()
	return s
}

func (r *Runner) mkCallback(sub int, s subSpec) *listener.Callback {
	ids := r.idList(s.comps)
	if s.has && len(ids) == 0 {
		// NewCallback treats "no components" as unrestricted; an explicit empty restriction
		// cannot be expressed with it, so the protocol forbids it
		panic(badOp{})
	}
	cb := listener.NewCallback(r.onEvent(sub), event.Subscription(s.subs), ids...)
	return &cb
}

// ---- execution ----

func (r *Runner) ok(payload string) string {
	if payload == "" {
		return "= ok"
	}
	return "= ok " + payload
}

// Exec runs one line and returns the output lines.
func (r *Runner) Exec(line string) (out []string) {
	fields := strings.Fields(line)
	if len(fields) == 0 || strings.HasPrefix(fields[0], "#") {
		return nil
	}
	r.events = r.events[:0]
	cmd := fields[0]
	defer func() {
		if x := recover(); x != nil {
			switch v := x.(type) {
			case badRef:
				out = []string{"= bad-ref"}
				return
			case badOp:
				out = []string{"= bad-op"}
				return
			case string:
				c := classify(v)
				r.panicCount[c]++
				out = append([]string{"= panic " + c}, r.events...)
			case error:
				c := classify(v.Error())
				r.panicCount[c]++
				out = append([]string{"= panic " + c}, r.events...)
			default:
				r.panicCount["crash"]++
				out = append([]string{"= panic crash"}, r.events...)
			}
		}
	}()
	r.opCount[cmd]++
	if r.gcEvery > 0 {
		r.opsSeen++
		if r.opsSeen%r.gcEvery == 0 {
			runtime.GC()
		}
	}
	res := r.exec(cmd, &toks{t: fields[1:]})
	return append([]string{res}, r.events...)
}

func (r *Runner) addHandles(es []ecs.Entity) string {
	sort.Slice(es, func(a, b int) bool { return es[a].ID() < es[b].ID() })
	s := make([]string, len(es))
	for i, e := range es {
		s[i] = showEnt(e)
		r.handles = append(r.handles, e)
	}
	return strings.Join(s, " ")
}

// newSince returns entities stored in the world that are not in `before`.
func (r *Runner) newSince(before map[ecs.Entity]bool) []ecs.Entity {
	res := []ecs.Entity{}
	for _, e := range r.w.VerifAliveEntities() {
		if !before[e] {
			res = append(res, e)
		}
	}
	return res
}

func (r *Runner) stored() map[ecs.Entity]bool {
	m := map[ecs.Entity]bool{}
	for _, e := range r.w.VerifAliveEntities() {
		m[e] = true
	}
	return m
}

func (r *Runner) getQuery(k int, needPos bool) *qstate {
	if k >= len(r.queries) {
		panic(badRef{})
	}
	q := r.queries[k]
	if q.closed || (needPos && !q.pos) {
		panic(badRef{})
	}
	return q
}

func (r *Runner) check(re *refErr) {
	if re.bad {
		panic(badRef{})
	}
}

func (r *Runner) exec(cmd string, t *toks) string {
	re := &refErr{}
	if cmd == "world" || cmd == "world+" {
		a, b, c := t.nat(), t.nat(), t.nat()
		t.end()
		if c != ecs.MaskTotalBits {
			panic(badOp{})
		}
		dumps := r.dumps
		*r = *NewRunnerKeep(r)
		if cmd == "world+" {
			r.dumps = dumps // dumps are plain data and outlive the world they were taken from
		}
		w := ecs.NewWorld(ecs.NewConfig().WithCapacityIncrement(a).WithRelationCapacityIncrement(b))
		r.w = &w
		r.bits = c
		r.started = true
		return r.ok("")
	}
	if !r.started {
		panic(badOp{})
	}
	w := r.w
	switch cmd {
	case "reg":
		kind := t.next()
		t.end()
		tp, isRel, isPtr, err := makeType(kind, len(r.comps))
		if err != nil {
			panic(badOp{})
		}
		id := ecs.TypeID(w, tp)
		r.comps = append(r.comps, &compKind{kind: kind, tp: tp, id: id, isRel: isRel, size: tp.Size(), isPtr: isPtr})
		info, ok := ecs.ComponentInfo(w, id)
		rid, _ := ecs.ComponentInfo(w, ecs.TypeID(w, tp)) // same type, same id again
		return r.ok(fmt.Sprintf("%d rel=%s known=%s stable=%s", ecs.VerifIDValue(id), b01(info.IsRelation), b01(ok && info.Type == tp), b01(rid.ID == id)))
	case "resreg":
		t.end()
		tp := reflect.ArrayOf(len(r.resIDs)+1, byteType)
		id := ecs.ResourceTypeID(w, tp)
		r.resIDs = append(r.resIDs, id)
		return r.ok(strconv.Itoa(int(ecs.VerifResIDValue(id))))
	case "new":
		ids := r.idList(t.ids())
		t.end()
		e := w.NewEntity(ids...)
		r.handles = append(r.handles, e)
		return r.ok(showEnt(e))
	case "newv":
		cs := r.compList(t.pairs())
		t.end()
		e := w.NewEntityWith(cs...)
		r.handles = append(r.handles, e)
		return r.ok(showEnt(e))
	case "bld":
		return r.execBuilder(t)
	case "rm":
		e := r.ent(t, re)
		t.end()
		r.check(re)
		w.RemoveEntity(e)
		return r.ok("")
	case "add", "rem":
		e := r.ent(t, re)
		ids := r.idList(t.ids())
		t.end()
		r.check(re)
		if cmd == "add" {
			w.Add(e, ids...)
		} else {
			w.Remove(e, ids...)
		}
		return r.ok("")
	case "xchg":
		e := r.ent(t, re)
		a := r.idList(t.ids())
		rm := r.idList(t.ids())
		t.end()
		r.check(re)
		w.Exchange(e, a, rm)
		return r.ok("")
	case "relxchg":
		e := r.ent(t, re)
		a := r.idList(t.ids())
		rm := r.idList(t.ids())
		rl := r.idOf(t.nat())
		tg := r.ent(t, re)
		t.end()
		r.check(re)
		w.Relations().Exchange(e, a, rm, rl, tg)
		return r.ok("")
	case "assign":
		e := r.ent(t, re)
		cs := r.compList(t.pairs())
		t.end()
		r.check(re)
		w.Assign(e, cs...)
		return r.ok("")
	case "set":
		e := r.ent(t, re)
		i, v := t.nat(), t.nat()
		id := r.idOf(i)
		t.end()
		r.check(re)
		w.Set(e, id, r.comps[i].newVal(v))
		return r.ok("")
	case "write":
		e := r.ent(t, re)
		i, v := t.nat(), t.nat()
		id := r.idOf(i)
		t.end()
		r.check(re)
		p := w.Get(e, id)
		if p == nil {
			return r.ok("nil")
		}
		r.comps[i].writeVal(p, v)
		return r.ok("")
	case "get", "has":
		e := r.ent(t, re)
		i := t.nat()
		id := r.idOf(i)
		t.end()
		r.check(re)
		if cmd == "has" {
			return r.ok(b01(w.Has(e, id)))
		}
		p := w.Get(e, id)
		if p == nil {
			return r.ok("nil")
		}
		return r.ok(r.comps[i].readVal(p))
	case "hasu", "getu", "relu":
		// unchecked accessors (no liveness check)
		e := r.ent(t, re)
		i := t.nat()
		id := r.idOf(i)
		t.end()
		r.check(re)
		switch cmd {
		case "hasu":
			return r.ok(b01(w.HasUnchecked(e, id)))
		case "relu":
			return r.ok(showEnt(w.Relations().GetUnchecked(e, id)))
		}
		p := w.GetUnchecked(e, id)
		if p == nil {
			return r.ok("nil")
		}
		return r.ok(r.comps[i].readVal(p))
	case "mask", "ids":
		e := r.ent(t, re)
		t.end()
		r.check(re)
		if cmd == "mask" {
			m := w.Mask(e)
			return r.ok(joinInts(idsOfMask(&m, r.bits)))
		}
		ids := w.Ids(e)
		l := make([]int, len(ids))
		for i, id := range ids {
			l[i] = int(ecs.VerifIDValue(id))
		}
		return r.ok(joinInts(l))
	case "alive":
		e := r.ent(t, re)
		t.end()
		r.check(re)
		return r.ok(b01(w.Alive(e)))
	case "json":
		e := r.ent(t, re)
		t.end()
		r.check(re)
		data, err := r.jsonText(e)
		if err != nil {
			return r.ok("error")
		}
		var e2 ecs.Entity
		if err := json.Unmarshal(data, &e2); err != nil {
			return r.ok("error")
		}
		return r.ok(showEnt(e2))
	case "setgen":
		i, g := t.nat(), t.nat()
		t.end()
		if i >= w.Stats().Entities.Total+1 {
			panic(badRef{})
		}
		w.VerifSetGeneration(uint32(i), uint32(g))
		return r.ok("")
	case "relget":
		e := r.ent(t, re)
		rl := r.idOf(t.nat())
		t.end()
		r.check(re)
		return r.ok(showEnt(w.Relations().Get(e, rl)))
	case "relset":
		e := r.ent(t, re)
		rl := r.idOf(t.nat())
		tg := r.ent(t, re)
		t.end()
		r.check(re)
		w.Relations().Set(e, rl, tg)
		return r.ok("")
	case "b_xchg", "b_xchgq", "b_add", "b_addq", "b_rem", "b_remq":
		f := r.filter(t, re)
		var a, rm []ecs.ID
		if !strings.HasPrefix(cmd, "b_rem") {
			a = r.idList(t.ids())
		}
		if !strings.HasPrefix(cmd, "b_add") {
			rm = r.idList(t.ids())
		}
		t.end()
		r.check(re)
		switch cmd {
		case "b_xchg":
			return r.ok(strconv.Itoa(w.Batch().Exchange(f, a, rm)))
		case "b_add":
			return r.ok(strconv.Itoa(w.Batch().Add(f, a...)))
		case "b_rem":
			return r.ok(strconv.Itoa(w.Batch().Remove(f, rm...)))
		case "b_xchgq":
			return r.addQuery(w.Batch().ExchangeQ(f, a, rm), true)
		case "b_addq":
			return r.addQuery(w.Batch().AddQ(f, a...), true)
		default:
			return r.addQuery(w.Batch().RemoveQ(f, rm...), true)
		}
	case "rb_xchg", "rb_xchgq":
		f := r.filter(t, re)
		a := r.idList(t.ids())
		rm := r.idList(t.ids())
		rl := r.idOf(t.nat())
		tg := r.ent(t, re)
		t.end()
		r.check(re)
		if cmd == "rb_xchg" {
			return r.ok(strconv.Itoa(w.Relations().ExchangeBatch(f, a, rm, rl, tg)))
		}
		return r.addQuery(w.Relations().ExchangeBatchQ(f, a, rm, rl, tg), true)
	case "b_setrel", "b_setrelq", "rb_set", "rb_setq":
		f := r.filter(t, re)
		rl := r.idOf(t.nat())
		tg := r.ent(t, re)
		t.end()
		r.check(re)
		switch cmd {
		case "b_setrel":
			return r.ok(strconv.Itoa(w.Batch().SetRelation(f, rl, tg)))
		case "rb_set":
			return r.ok(strconv.Itoa(w.Relations().SetBatch(f, rl, tg)))
		case "b_setrelq":
			return r.addQuery(w.Batch().SetRelationQ(f, rl, tg), true)
		default:
			return r.addQuery(w.Relations().SetBatchQ(f, rl, tg), true)
		}
	case "b_rment":
		f := r.filter(t, re)
		t.end()
		r.check(re)
		return r.ok(strconv.Itoa(w.Batch().RemoveEntities(f)))
	case "creg":
		f := r.filter(t, re)
		t.end()
		r.check(re)
		cf := w.Cache().Register(f)
		r.cfilters = append(r.cfilters, &cfstate{cached: &cf, orig: f})
		return r.ok("c" + strconv.Itoa(len(r.cfilters)-1))
	case "cunreg":
		k := t.nat()
		t.end()
		if k >= len(r.cfilters) {
			panic(badRef{})
		}
		f := w.Cache().Unregister(r.cfilters[k].cached)
		if sameFilter(f, r.cfilters[k].orig) {
			return r.ok("same")
		}
		return r.ok("different")
	case "q":
		f := r.filter(t, re)
		t.end()
		r.check(re)
		return r.addQuery(w.Query(f), false)
	case "qall":
		f := r.filter(t, re)
		t.end()
		r.check(re)
		q := w.Query(f)
		ents := []string{}
		agree := true
		for q.Next() {
			e := q.Entity()
			ents = append(ents, showEnt(e))
			agree = agree && r.positionAgrees(&q, e)
		}
		return r.ok(fmt.Sprintf("%d agree=%s %s", len(ents), b01(agree), strings.Join(ents, " ")))
	case "qn":
		k := t.nat()
		t.end()
		q := r.getQuery(k, false)
		return r.afterAdvance(q, q.q.Next())
	case "qs":
		k := t.nat()
		n := t.int()
		t.end()
		q := r.getQuery(k, false)
		return r.afterAdvance(q, q.q.Step(n))
	case "qc":
		k := t.nat()
		t.end()
		q := r.getQuery(k, false)
		return r.ok(strconv.Itoa(q.q.Count()))
	case "qa":
		k := t.nat()
		i := t.int()
		t.end()
		q := r.getQuery(k, false)
		return r.ok(showEnt(q.q.EntityAt(i)))
	case "qe":
		k := t.nat()
		t.end()
		q := r.getQuery(k, true)
		return r.ok(showEnt(q.q.Entity()))
	case "qh", "qg":
		k := t.nat()
		i := t.nat()
		id := r.idOf(i)
		t.end()
		q := r.getQuery(k, true)
		if cmd == "qh" {
			return r.ok(b01(q.q.Has(id)))
		}
		p := q.q.Get(id)
		if p == nil {
			return r.ok("nil")
		}
		return r.ok(r.comps[i].readVal(p))
	case "qm", "qi":
		k := t.nat()
		t.end()
		q := r.getQuery(k, true)
		if cmd == "qm" {
			m := q.q.Mask()
			return r.ok(joinInts(idsOfMask(&m, r.bits)))
		}
		ids := q.q.Ids()
		l := make([]int, len(ids))
		for i, id := range ids {
			l[i] = int(ecs.VerifIDValue(id))
		}
		return r.ok(joinInts(l))
	case "qr":
		k := t.nat()
		rl := r.idOf(t.nat())
		t.end()
		q := r.getQuery(k, true)
		return r.ok(showEnt(q.q.Relation(rl)))
	case "qw":
		k := t.nat()
		i, v := t.nat(), t.nat()
		id := r.idOf(i)
		t.end()
		q := r.getQuery(k, true)
		p := q.q.Get(id)
		if p == nil {
			return r.ok("nil")
		}
		r.comps[i].writeVal(p, v)
		return r.ok("")
	case "qx":
		k := t.nat()
		t.end()
		q := r.getQuery(k, false)
		q.closed = true
		q.pos = false
		q.q.Close()
		return r.ok("")
	case "gc":
		t.end()
		runtime.GC()
		return r.ok("")
	case "snapshot":
		t.end()
		return r.ok(r.snapshot())
	case "shape":
		p := t.next()
		t.end()
		return r.ok(w.VerifShape(p))
	case "inv":
		t.end()
		if err := w.VerifCheckInvariants(); err != nil {
			return r.ok("VIOLATED " + err.Error())
		}
		return r.ok("")
	case "locked":
		t.end()
		return r.ok(b01(w.IsLocked()))
	case "stats":
		t.end()
		st := w.Stats()
		return r.ok(fmt.Sprintf("used=%d recycled=%d total=%d nodes=%d filters=%d", st.Entities.Used, st.Entities.Recycled, st.Entities.Total, st.ActiveNodeCount, st.CachedFilters))
	case "reset":
		t.end()
		w.Reset()
		return r.ok("")
	case "dump":
		t.end()
		d := w.DumpEntities()
		r.dumps = append(r.dumps, d)
		es := make([]string, len(d.Entities))
		for i, e := range d.Entities {
			es[i] = showEnt(e)
		}
		al := make([]int, len(d.Alive))
		for i, a := range d.Alive {
			al[i] = int(a)
		}
		return r.ok(fmt.Sprintf("d%d next=%d avail=%d ents=%s alive=%s", len(r.dumps)-1, d.Next, d.Available, strings.Join(es, ","), joinInts(al)))
	case "load":
		k := t.nat()
		viaJSON := false
		if t.more() {
			if t.next() != "json" {
				panic(badOp{})
			}
			viaJSON = true
		}
		t.end()
		if k >= len(r.dumps) {
			panic(badRef{})
		}
		if viaJSON {
			// the dump as an application would persist it: through encoding/json and back
			b, err := r.jsonText(&r.dumps[k])
			if err != nil {
				return r.ok("json-error " + err.Error())
			}
			var d ecs.EntityDump
			if err := json.Unmarshal(b, &d); err != nil {
				return r.ok("json-error " + err.Error())
			}
			w.LoadEntities(&d)
			return r.ok("")
		}
		w.LoadEntities(&r.dumps[k])
		return r.ok("")
	case "resadd":
		k, tok := t.nat(), t.nat()
		t.end()
		if k >= len(r.resIDs) {
			panic(badRef{})
		}
		v := tok
		w.Resources().Add(r.resIDs[k], &v)
		return r.ok("")
	case "resrem":
		k := t.nat()
		t.end()
		if k >= len(r.resIDs) {
			panic(badRef{})
		}
		w.Resources().Remove(r.resIDs[k])
		return r.ok("")
	case "resget":
		k := t.nat()
		t.end()
		if k >= len(r.resIDs) {
			panic(badRef{})
		}
		v := w.Resources().Get(r.resIDs[k])
		if v == nil {
			return r.ok("nil")
		}
		return r.ok(strconv.Itoa(*(v.(*int))))
	case "reslook":
		// look the k-th registered resource type up again by its type
		k := t.nat()
		t.end()
		if k >= len(r.resIDs) {
			panic(badRef{})
		}
		id := ecs.ResourceTypeID(w, reflect.ArrayOf(k+1, byteType))
		tp, okT := ecs.ResourceType(w, id)
		same := okT && tp == reflect.ArrayOf(k+1, byteType)
		return r.ok(fmt.Sprintf("%d n=%d type=%v", int(ecs.VerifResIDValue(id)), len(ecs.ResourceIDs(w)), same))
	case "reshas":
		k := t.nat()
		t.end()
		if k >= len(r.resIDs) {
			panic(badRef{})
		}
		return r.ok(b01(w.Resources().Has(r.resIDs[k])))
	case "lst":
		s := r.sub(t)
		t.end()
		cb := r.mkCallback(0, s)
		r.disp = nil
		r.keep = append(r.keep, cb)
		w.SetListener(cb)
		return r.ok("")
	case "nolst":
		t.end()
		r.disp = nil
		w.SetListener(nil)
		return r.ok("")
	case "disp":
		n := t.nat()
		specs := make([]subSpec, n)
		for i := range specs {
			specs[i] = r.sub(t)
		}
		t.end()
		ls := make([]ecs.Listener, n)
		for i := range specs {
			ls[i] = r.mkCallback(i, specs[i])
		}
		d := listener.NewDispatch(ls...)
		r.disp = &d
		r.subCount = n
		w.SetListener(r.disp)
		return r.ok("")
	case "dispadd":
		s := r.sub(t)
		t.end()
		if r.disp == nil {
			panic(badRef{})
		}
		r.disp.AddListener(r.mkCallback(r.subCount, s))
		r.subCount++
		return r.ok("")
	}
	panic(badOp{})
}

// jsonText serialises v as an application or another tool might: compact, indented, or with
// insignificant whitespace around every token (all three are the same JSON document).
func (r *Runner) jsonText(v interface{}) ([]byte, error) {
	r.jsonSeen++
	switch r.jsonSeen % 3 {
	case 1:
		return json.Marshal(v)
	case 2:
		return json.MarshalIndent(v, "", "  ")
	}
	b, err := json.Marshal(v)
	if err != nil {
		return nil, err
	}
	out := []byte{}
	inStr := false
	ws := []string{" ", "\n", "\t", " \r\n "}
	for i, c := range b {
		if c == '"' && (i == 0 || b[i-1] != '\\') {
			inStr = !inStr
		}
		if !inStr && strings.ContainsRune("[]{},:", rune(c)) {
			out = append(out, ws[i%len(ws)]...)
			out = append(out, c)
			out = append(out, ws[(i+1)%len(ws)]...)
			continue
		}
		out = append(out, c)
	}
	return out, nil
}

func b01(b bool) string {
	if b {
		return "1"
	}
	return "0"
}

// NewRunnerKeep returns a fresh runner that keeps the statistics of the old one.
func NewRunnerKeep(old *Runner) *Runner {
	n := NewRunner()
	n.gcEvery = old.gcEvery
	n.opsSeen = old.opsSeen
	n.jsonSeen = old.jsonSeen
	n.opCount = old.opCount
	n.panicCount = old.panicCount
	return n
}

func sameFilter(a, b ecs.Filter) bool {
	defer func() { recover() }()
	return a == b
}

func (r *Runner) addQuery(q ecs.Query, batch bool) string {
	r.queries = append(r.queries, &qstate{q: q, batch: batch})
	return r.ok("q" + strconv.Itoa(len(r.queries)-1))
}

func (r *Runner) afterAdvance(q *qstate, ok bool) string {
	if ok {
		q.pos = true
		return r.ok("1 " + showEnt(q.q.Entity()))
	}
	q.pos = false
	q.closed = true
	return r.ok("0")
}

// positionAgrees: at the cursor, the query's Entity/Has/Get/Mask/Ids/Relation agree with the world.
func (r *Runner) positionAgrees(q *ecs.Query, e ecs.Entity) bool {
	w := r.w
	if !w.Alive(e) {
		return false
	}
	if q.Mask() != w.Mask(e) {
		return false
	}
	qi, wi := q.Ids(), w.Ids(e)
	if len(qi) != len(wi) {
		return false
	}
	for i := range qi {
		if qi[i] != wi[i] {
			return false
		}
	}
	for _, c := range r.comps {
		if q.Has(c.id) != w.Has(e, c.id) {
			return false
		}
		if q.Get(c.id) != w.Get(e, c.id) {
			return false
		}
	}
	if rel, ok := r.relOf(w, e); ok {
		if q.Relation(rel) != w.Relations().Get(e, rel) {
			return false
		}
	}
	return true
}

func (r *Runner) snapshot() string {
	w := r.w
	es := w.VerifAliveEntities()
	sort.Slice(es, func(a, b int) bool { return es[a].ID() < es[b].ID() })
	parts := make([]string, len(es))
	for i, e := range es {
		ids := w.Ids(e)
		cells := make([]string, len(ids))
		tg := "-"
		for j, id := range ids {
			k := int(ecs.VerifIDValue(id))
			val := "?"
			if k < len(r.comps) {
				p := w.Get(e, id)
				if p == nil {
					val = "nil"
				} else {
					val = r.comps[k].readVal(p)
				}
				if r.comps[k].isRel {
					tg = showEnt(w.Relations().Get(e, id))
				}
			}
			cells[j] = fmt.Sprintf("%d=%s", k, val)
		}
		parts[i] = fmt.Sprintf("%s[%s]>%s", showEnt(e), strings.Join(cells, ","), tg)
	}
	return strings.Join(parts, " ")
}

func (r *Runner) execBuilder(t *toks) string {
	w := r.w
	re := &refErr{}
	kind := t.next()
	var ids []ecs.ID
	var comps []ecs.Component
	switch kind {
	case "I":
		ids = r.idList(t.ids())
	case "V":
		comps = r.compList(t.pairs())
		if len(comps) == 0 {
			panic(badOp{})
		}
	default:
		panic(badOp{})
	}
	var b *ecs.Builder
	if kind == "I" {
		b = ecs.NewBuilder(w, ids...)
	} else {
		b = ecs.NewBuilderWith(w, comps...)
	}
	rs := t.next()
	if rs == "R" {
		b = b.WithRelation(r.idOf(t.nat()))
	} else if rs != "-" {
		panic(badOp{})
	}
	m := t.next()
	cnt := 0
	var ent ecs.Entity
	switch m {
	case "new":
	case "batch", "batchq":
		cnt = t.int()
	case "add":
		ent = r.ent(t, re)
	default:
		panic(badOp{})
	}
	var target []ecs.Entity
	ts := t.next()
	if ts == "T" {
		target = []ecs.Entity{r.ent(t, re)}
	} else if ts != "-" {
		panic(badOp{})
	}
	t.end()
	r.check(re)
	switch m {
	case "new":
		e := b.New(target...)
		r.handles = append(r.handles, e)
		return r.ok(showEnt(e))
	case "batch":
		before := r.stored()
		b.NewBatch(cnt, target...)
		return r.ok(r.addHandles(r.newSince(before)))
	case "batchq":
		before := r.stored()
		q := b.NewBatchQ(cnt, target...)
		r.queries = append(r.queries, &qstate{q: q, batch: true})
		hs := r.addHandles(r.newSince(before))
		return r.ok(fmt.Sprintf("q%d %s", len(r.queries)-1, hs))
	default:
		b.Add(ent, target...)
		return r.ok("")
	}
}

var _ = unsafe.Pointer(nil)
