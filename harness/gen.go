package main

// Generator: draws structured, mostly-valid operations from the live state of the world it
// is driving (so that adds target absent components, removals alive entities, …), plus a
// malformed stream (dead / recycled / zero / self targets, duplicates, absent components,
// non-positive counts, out-of-range indices, stale filters). Every random choice comes from
// one SplitMix64 stream, so a sequence is reproducible from (seed, profile, n).

import (
	"fmt"
	"sort"
	"strconv"
	"strings"

	"github.com/mlange-42/arche/ecs"
)

type rng struct{ s uint64 }

func (r *rng) next() uint64 {
	r.s += 0x9e3779b97f4a7c15
	z := r.s
	z = (z ^ (z >> 30)) * 0xbf58476d1ce4e5b9
	z = (z ^ (z >> 27)) * 0x94d049bb133111eb
	return z ^ (z >> 31)
}
func (r *rng) intn(n int) int {
	if n <= 0 {
		return 0
	}
	return int(r.next() % uint64(n))
}
func (r *rng) chance(pct int) bool { return r.intn(100) < pct }
func pick[T any](r *rng, l []T) T  { return l[r.intn(len(l))] }

type weights map[string]int

type profile struct {
	name      string
	w         weights
	fault     int // percent of operations drawn from the malformed stream
	listener  int // percent chance that a listener is installed at start
	maxComps  int
	spread    int // percent chance to pad registrations so that ids spread over mask words
	maxOpenQ  int
	bigBatch  bool
	ptrComps  bool
	resources int
}

var baseWeights = weights{
	"create": 14, "remove": 8, "exchange": 16, "values": 12, "relation": 8, "batch": 8,
	"cache": 3, "query": 8, "qall": 6, "reset": 1, "dumpload": 1, "resource": 2, "listener": 1,
	"observe": 8, "bcreate": 5, "latereg": 1,
}

func mix(over weights) weights {
	w := weights{}
	for k, v := range baseWeights {
		w[k] = v
	}
	for k, v := range over {
		w[k] = v
	}
	return w
}

var profiles = map[string]profile{
	"mixed":     {name: "mixed", w: mix(nil), fault: 8, listener: 60, maxComps: 8, spread: 25, maxOpenQ: 3, resources: 3},
	"moves":     {name: "moves", w: mix(weights{"exchange": 30, "values": 20, "relation": 10, "batch": 10, "remove": 10}), fault: 3, listener: 30, maxComps: 10, spread: 50, maxOpenQ: 1},
	"churn":     {name: "churn", w: mix(weights{"create": 20, "bcreate": 15, "remove": 20, "batch": 8, "reset": 2, "dumpload": 3, "exchange": 5, "values": 3}), fault: 4, listener: 20, maxComps: 4, maxOpenQ: 1, bigBatch: true},
	"relations": {name: "relations", w: mix(weights{"relation": 28, "create": 14, "bcreate": 8, "remove": 14, "batch": 12, "qall": 8, "cache": 5}), fault: 10, listener: 60, maxComps: 6, maxOpenQ: 2},
	"cache":     {name: "cache", w: mix(weights{"cache": 12, "qall": 16, "relation": 14, "remove": 12, "batch": 12, "reset": 2}), fault: 5, listener: 30, maxComps: 6, maxOpenQ: 2},
	"queries":   {name: "queries", w: mix(weights{"query": 30, "qall": 10, "batch": 10}), fault: 6, listener: 30, maxComps: 6, maxOpenQ: 4},
	"batch":     {name: "batch", w: mix(weights{"batch": 30, "bcreate": 10, "relation": 8}), fault: 4, listener: 70, maxComps: 7, maxOpenQ: 2, bigBatch: true},
	"faults":    {name: "faults", w: mix(nil), fault: 40, listener: 50, maxComps: 6, maxOpenQ: 3, resources: 3},
	"events":    {name: "events", w: mix(weights{"listener": 6, "relation": 14, "batch": 14, "bcreate": 8}), fault: 4, listener: 100, maxComps: 6, maxOpenQ: 2},
	"locks":     {name: "locks", w: mix(weights{"query": 30, "qall": 4}), fault: 10, listener: 50, maxComps: 5, maxOpenQ: 12},
	"reset":     {name: "reset", w: mix(weights{"reset": 6, "dumpload": 4, "cache": 6, "relation": 10}), fault: 4, listener: 40, maxComps: 6, maxOpenQ: 1, resources: 3},
	"resources": {name: "resources", w: mix(weights{"resource": 40, "reset": 3}), fault: 15, listener: 10, maxComps: 3, maxOpenQ: 2, resources: 8},
	"pointers":  {name: "pointers", w: mix(weights{"exchange": 28, "values": 24, "remove": 12, "batch": 8}), fault: 1, listener: 0, maxComps: 6, maxOpenQ: 1, ptrComps: true},
}

type Gen struct {
	r    *Runner
	rng  *rng
	p    profile
	ops  []string
	outs [][]string
	// generator-side knowledge
	epochStart int
	rels       []int // indices of relation comps
	plain      []int // indices of non-relation comps
	refused    bool  // a registration was refused (locked world); register again when unlocked
}

func (g *Gen) do(line string) []string {
	out := g.r.Exec(line)
	if (line == "reset" || strings.HasPrefix(line, "load ")) && len(out) > 0 && out[0] == "= ok" {
		g.epochStart = len(g.r.handles)
	}
	g.ops = append(g.ops, line)
	g.outs = append(g.outs, out)
	return out
}

func (g *Gen) aliveSafe(e ecs.Entity) (ok bool) {
	defer func() {
		if recover() != nil {
			ok = false
		}
	}()
	return g.r.w.Alive(e)
}

// aliveIdx: handles of entities actually stored in the world (ground truth from the hook,
// not from Alive, which is the thing under test). One index per handle value (the latest).
func (g *Gen) aliveIdx() []int {
	stored := g.r.stored()
	seen := map[ecs.Entity]bool{}
	res := []int{}
	for i := len(g.r.handles) - 1; i >= 0; i-- {
		h := g.r.handles[i]
		if stored[h] && !seen[h] {
			seen[h] = true
			res = append(res, i)
		}
	}
	sort.Ints(res)
	return res
}

// deadIdx: handles issued in the current epoch (since the last Reset/LoadEntities) whose
// entity is gone. Handles of earlier epochs are outside the protocol: Reset restarts
// generations, so an old handle is indistinguishable from a forged one.
func (g *Gen) deadIdx() []int {
	stored := g.r.stored()
	res := []int{}
	for i := g.epochStart; i < len(g.r.handles); i++ {
		if !stored[g.r.handles[i]] {
			res = append(res, i)
		}
	}
	return res
}

func (g *Gen) compsOf(idx int) []int {
	e := g.r.handles[idx]
	res := []int{}
	for _, id := range g.r.w.Ids(e) {
		res = append(res, int(ecs.VerifIDValue(id)))
	}
	return res
}

func contains(l []int, x int) bool {
	for _, y := range l {
		if y == x {
			return true
		}
	}
	return false
}

func idsStr(l []int) string {
	s := []string{strconv.Itoa(len(l))}
	for _, x := range l {
		s = append(s, strconv.Itoa(x))
	}
	return strings.Join(s, " ")
}

func (g *Gen) val() int { return 1 + g.rng.intn(250) }

func (g *Gen) pairsStr(l []int) string {
	s := []string{strconv.Itoa(len(l))}
	for _, x := range l {
		s = append(s, strconv.Itoa(x), strconv.Itoa(g.val()))
	}
	return strings.Join(s, " ")
}

// subset draws up to max distinct elements.
func (g *Gen) subset(l []int, max int) []int {
	if len(l) == 0 || max <= 0 {
		return nil
	}
	n := 1 + g.rng.intn(max)
	if n > len(l) {
		n = len(l)
	}
	perm := append([]int{}, l...)
	for i := range perm {
		j := i + g.rng.intn(len(perm)-i)
		perm[i], perm[j] = perm[j], perm[i]
	}
	res := perm[:n]
	sort.Ints(res)
	if g.rng.chance(30) { // unsorted argument order is legal too
		for i := range res {
			j := i + g.rng.intn(len(res)-i)
			res[i], res[j] = res[j], res[i]
		}
	}
	return res
}

// a component set with at most one relation (mostly)
func (g *Gen) compSet(maxN int) []int {
	res := g.subset(g.plain, maxN)
	if len(g.rels) > 0 && g.rng.chance(40) {
		res = append(res, pick(g.rng, g.rels))
	}
	return res
}

func (g *Gen) entRef(faulty bool) string {
	al := g.aliveIdx()
	if faulty || len(al) == 0 {
		switch g.rng.intn(5) {
		case 0:
			return "e-"
		case 1:
			d := g.deadIdx()
			if len(d) > 0 {
				return "e" + strconv.Itoa(pick(g.rng, d))
			}
		case 2:
			// forged handle: alive id with wrong generation
			if len(al) > 0 {
				h := g.r.handles[pick(g.rng, al)]
				return fmt.Sprintf("E%d:%d", h.ID(), h.Generation()+1+uint32(g.rng.intn(2)))
			}
		case 3:
			d := g.deadIdx()
			if len(d) > 0 {
				h := g.r.handles[pick(g.rng, d)]
				if !h.IsZero() && int(h.ID()) < g.poolSize() {
					return fmt.Sprintf("E%d:%d", h.ID(), h.Generation())
				}
			}
		}
		if len(al) == 0 {
			return "e-"
		}
	}
	return "e" + strconv.Itoa(pick(g.rng, al))
}

func (g *Gen) poolSize() int {
	return g.r.w.Stats().Entities.Total + 1
}

// target reference: alive / zero / dead / self are all interesting
func (g *Gen) targetRef(self string) string {
	switch x := g.rng.intn(100); {
	case x < 55:
		al := g.aliveIdx()
		if len(al) > 0 {
			return "e" + strconv.Itoa(pick(g.rng, al))
		}
		return "e-"
	case x < 75:
		return "e-"
	case x < 85 && self != "":
		return self
	case x < 95:
		d := g.deadIdx()
		// only handles whose id is still inside the pool (others crash by index, documented as unchecked)
		cand := []int{}
		for _, i := range d {
			if int(g.r.handles[i].ID()) < g.poolSize() && !g.r.handles[i].IsZero() {
				cand = append(cand, i)
			}
		}
		if len(cand) > 0 {
			return "e" + strconv.Itoa(pick(g.rng, cand))
		}
		return "e-"
	default:
		return g.entRef(true)
	}
}

// filter grammar
func (g *Gen) filterStr(depth int) string {
	all := append(append([]int{}, g.plain...), g.rels...)
	x := g.rng.intn(100)
	switch {
	case x < 30:
		return "A " + idsStr(g.subset(all, 2))
	case x < 36:
		return "A 0"
	case x < 50:
		a := g.subset(all, 2)
		rest := []int{}
		for _, c := range all {
			if !contains(a, c) {
				rest = append(rest, c)
			}
		}
		return "W " + idsStr(a) + " " + idsStr(g.subset(rest, 2))
	case x < 58:
		return "X " + idsStr(g.subset(all, 3))
	case x < 76 && len(g.rels) > 0:
		inner := "A " + idsStr([]int{pick(g.rng, g.rels)})
		if g.rng.chance(35) {
			inner = g.filterStr(depth + 1)
		} else if g.rng.chance(30) && len(g.plain) > 0 {
			// does not ask for the relation component: tables without relation match too
			inner = "A " + idsStr(g.subset(g.plain, 1))
		}
		return "R " + inner + " " + g.targetRef("")
	case x < 88 && depth < 3:
		op := pick(g.rng, []string{"&", "|", "^"})
		return op + " " + g.filterStr(depth+1) + " " + g.filterStr(depth+1)
	case x < 91 && depth < 3:
		return "! " + g.filterStr(depth+1)
	case x < 94:
		return pick(g.rng, []string{"ANY", "NONE", "ANYNOT"}) + " " + idsStr(g.subset(all, 3))
	default:
		if len(g.r.cfilters) > 0 {
			return "C " + strconv.Itoa(g.rng.intn(len(g.r.cfilters)))
		}
		return "A 0"
	}
}

func (g *Gen) openQueries() []int {
	res := []int{}
	for i, q := range g.r.queries {
		if !q.closed {
			res = append(res, i)
		}
	}
	return res
}

func (g *Gen) setup() {
	incs := []int{1, 2, 3, 4, 7, 16, 128}
	relincs := []int{0, 1, 2, 5}
	g.do(fmt.Sprintf("world %d %d %d", pick(g.rng, incs), pick(g.rng, relincs), ecs.MaskTotalBits))
	kinds := []string{"b1", "b2", "b4", "b8", "b12", "b16", "b24", "b40", "z", "ns", "rel2", "b3"}
	if g.p.ptrComps {
		kinds = []string{"ptr", "ptr", "b8", "z", "ptr"}
	}
	nPlain := 2 + g.rng.intn(g.p.maxComps-1)
	nRel := 1 + g.rng.intn(3)
	if g.p.ptrComps {
		nRel = g.rng.intn(2)
	}
	spread := g.rng.chance(g.p.spread) && ecs.MaskTotalBits > 64
	reg := func(kind string, used bool) {
		out := g.do("reg " + kind)
		if len(out) > 0 && strings.HasPrefix(out[0], "= ok ") {
			id, _ := strconv.Atoi(strings.Fields(out[0])[2])
			if !used {
				return
			}
			if kind == "rel" || kind == "relp" {
				g.rels = append(g.rels, id)
			} else {
				g.plain = append(g.plain, id)
			}
		}
	}
	pad := func() {
		if spread {
			n := 20 + g.rng.intn(60)
			for i := 0; i < n && len(g.r.comps) < ecs.MaskTotalBits-4; i++ {
				reg("b1", false)
			}
		}
	}
	// registration order: plain types first (the common layout), relation types first (a
	// relation component gets id 0, a zero-sized relation precedes the data columns), or mixed
	regPlain := func(i int) {
		reg(pick(g.rng, kinds), true)
		if i%2 == 1 {
			pad()
		}
	}
	regRel := func(i int) {
		reg(pick(g.rng, []string{"rel", "relp"}), true)
		if i == 0 {
			pad()
		}
	}
	switch order := g.rng.intn(4); order {
	case 0: // relations first
		for i := 0; i < nRel; i++ {
			regRel(i)
		}
		for i := 0; i < nPlain; i++ {
			regPlain(i)
		}
	case 1: // mixed
		ip, ir := 0, 0
		for ip < nPlain || ir < nRel {
			if ir < nRel && (ip >= nPlain || g.rng.chance(40)) {
				regRel(ir)
				ir++
			} else {
				regPlain(ip)
				ip++
			}
		}
	default:
		for i := 0; i < nPlain; i++ {
			regPlain(i)
		}
		for i := 0; i < nRel; i++ {
			regRel(i)
		}
	}
	nRes := g.p.resources
	if nRes >= 8 && g.rng.chance(35) {
		nRes = ecs.MaskTotalBits // the whole id range, up to the last slot
	}
	for i := 0; i < nRes; i++ {
		g.do("resreg")
	}
	if g.rng.chance(g.p.listener) {
		g.do("lst 63 -")
	}
}

func (g *Gen) step() {
	nq := len(g.r.queries)
	defer func() {
		// random access into the result queries of batch operations (Count, EntityAt at both
		// ends and in between), before anything else is done with them
		for k := nq; k < len(g.r.queries); k++ {
			if q := g.r.queries[k]; q.batch && !q.closed && g.rng.chance(60) {
				out := g.do(fmt.Sprintf("qc %d", k))
				cnt := 0
				if len(out) > 0 && strings.HasPrefix(out[0], "= ok ") {
					cnt, _ = strconv.Atoi(out[0][5:])
				}
				if cnt > 0 {
					g.do(fmt.Sprintf("qa %d %d", k, cnt-1))
					g.do(fmt.Sprintf("qa %d 0", k))
					g.do(fmt.Sprintf("qa %d %d", k, g.rng.intn(cnt)))
				}
				// ... and just beyond its end: the documented panic, also when several recorded ranges lie in one table
				if g.rng.chance(30) {
					g.do(fmt.Sprintf("qa %d %d", k, cnt+g.rng.intn(3)))
				}
			}
			// ... and a fresh result query entered with Step rather than Next (its first range
			// usually starts behind entities that were in the destination table before)
			if q := g.r.queries[k]; q.batch && !q.closed && g.rng.chance(35) {
				g.do(fmt.Sprintf("qs %d %d", k, pick(g.rng, []int{1, 1, 2, 3})))
			}
		}
	}()
	faulty := g.rng.chance(g.p.fault)
	// weighted category choice
	total := 0
	keys := make([]string, 0, len(g.p.w))
	for k := range g.p.w {
		keys = append(keys, k)
	}
	sort.Strings(keys)
	for _, k := range keys {
		total += g.p.w[k]
	}
	x := g.rng.intn(total)
	cat := keys[0]
	for _, k := range keys {
		if x < g.p.w[k] {
			cat = k
			break
		}
		x -= g.p.w[k]
	}
	// close queries eagerly so that most structural operations run unlocked
	if open := g.openQueries(); len(open) > 0 && (len(open) > g.p.maxOpenQ || g.rng.chance(60)) && cat != "query" {
		k := pick(g.rng, open)
		if g.rng.chance(50) && !(g.r.queries[k].batch && g.rng.chance(70)) {
			g.do(fmt.Sprintf("qx %d", k))
		} else {
			if g.rng.chance(40) {
				g.do(fmt.Sprintf("qc %d", k))
			}
			for i := 0; i < 10000; i++ {
				out := g.do(fmt.Sprintf("qn %d", k))
				if len(out) == 0 || !strings.HasPrefix(out[0], "= ok 1") {
					break
				}
			}
		}
	}
	if g.refused && len(g.openQueries()) == 0 {
		g.refused = false
		g.lateReg(1)
		return
	}
	switch cat {
	case "create":
		g.genCreate(faulty)
	case "bcreate":
		g.genBatchCreate(faulty)
	case "remove":
		g.do("rm " + g.entRef(faulty))
	case "exchange":
		g.genExchange(faulty)
	case "values":
		g.genValues(faulty)
	case "relation":
		g.genRelation(faulty)
	case "batch":
		g.genBatch(faulty)
	case "cache":
		g.genCache(faulty)
	case "query":
		g.genQuery(faulty)
	case "qall":
		f := g.filterStr(0)
		g.do("qall " + f)
		// the same selection through a registered copy must agree (C07): issue the plain and
		// the registered form back to back when the filter is a registered one
		if strings.HasPrefix(f, "C ") {
			k, _ := strconv.Atoi(f[2:])
			_ = k
		}
	case "reset":
		if faulty || len(g.openQueries()) == 0 {
			g.doReset()
			if g.rng.chance(50) {
				g.do("shape pifncl")
			}
		}
	case "dumpload":
		g.genDumpLoad(faulty)
	case "resource":
		g.genResource(faulty)
	case "listener":
		g.genListener()
	case "observe":
		g.genObserve()
	case "latereg":
		if faulty && len(g.openQueries()) > 0 && len(g.r.comps) < ecs.MaskTotalBits {
			// refused while locked; the registry must be exactly as before (the next
			// successful registration shows the id and the relation flag)
			g.do("reg " + pick(g.rng, []string{"rel", "relp", "b8", "z"}))
			g.refused = true
			return
		}
		g.lateReg(1 + g.rng.intn(2))
	}
}

func (g *Gen) genCreate(faulty bool) {
	comps := g.compSet(3)
	if faulty {
		switch g.rng.intn(3) {
		case 0:
			if len(comps) > 0 {
				comps = append(comps, comps[0]) // duplicate id
			}
		case 1:
			if len(g.rels) >= 2 {
				comps = append(g.subset(g.plain, 2), g.rels[0], g.rels[1]) // two relations
			}
		}
	}
	switch g.rng.intn(4) {
	case 0:
		g.do("new " + idsStr(comps))
	case 1:
		g.do("newv " + g.pairsStr(comps))
	default:
		g.genBuilder("new", comps, faulty)
	}
}

func (g *Gen) relOfSet(comps []int) (int, bool) {
	for _, c := range comps {
		if contains(g.rels, c) {
			return c, true
		}
	}
	return 0, false
}

func (g *Gen) genBuilder(method string, comps []int, faulty bool) {
	kind := "I " + idsStr(comps)
	if g.rng.chance(45) && len(comps) > 0 {
		kind = "V " + g.pairsStr(comps)
	}
	rel := "-"
	tgt := "-"
	if r, ok := g.relOfSet(comps); ok {
		if g.rng.chance(80) {
			rel = "R " + strconv.Itoa(r)
			if g.rng.chance(75) {
				tgt = "T " + g.targetRef("")
			}
		}
	}
	if faulty {
		switch g.rng.intn(4) {
		case 0: // relation id that is not a relation / not in the set
			all := append(append([]int{}, g.plain...), g.rels...)
			rel = "R " + strconv.Itoa(pick(g.rng, all))
			tgt = "T " + g.targetRef("")
		case 1: // target without WithRelation
			rel = "-"
			tgt = "T " + g.targetRef("")
		}
	}
	g.do(fmt.Sprintf("bld %s %s %s %s", kind, rel, method, tgt))
}

func (g *Gen) batchSize() int {
	inc := 4
	sizes := []int{1, 2, 3, inc - 1, inc, inc + 1, 9}
	if g.p.bigBatch {
		sizes = append(sizes, 17, 40, 130)
	}
	return pick(g.rng, sizes)
}

func (g *Gen) genBatchCreate(faulty bool) {
	comps := g.compSet(3)
	cnt := g.batchSize()
	if faulty && g.rng.chance(50) {
		cnt = pick(g.rng, []int{0, -1, -5})
	}
	m := "batch"
	if g.rng.chance(35) {
		m = "batchq"
	}
	g.genBuilder(fmt.Sprintf("%s %d", m, cnt), comps, faulty && g.rng.chance(50))
}

func (g *Gen) genExchange(faulty bool) {
	al := g.aliveIdx()
	if len(al) == 0 {
		g.do("new " + idsStr(g.compSet(2)))
		return
	}
	idx := pick(g.rng, al)
	e := "e" + strconv.Itoa(idx)
	has := g.compsOf(idx)
	hasRel := false
	for _, c := range has {
		if contains(g.rels, c) {
			hasRel = true
		}
	}
	lacks := []int{}
	for _, c := range g.plain {
		if !contains(has, c) {
			lacks = append(lacks, c)
		}
	}
	lacksRel := []int{}
	for _, c := range g.rels {
		if !contains(has, c) {
			lacksRel = append(lacksRel, c)
		}
	}
	add := g.subset(lacks, 2)
	rem := g.subset(has, 2)
	remHasRel := false
	for _, c := range rem {
		if contains(g.rels, c) {
			remHasRel = true
		}
	}
	if len(lacksRel) > 0 && (!hasRel || remHasRel) && g.rng.chance(30) {
		add = append(add, pick(g.rng, lacksRel))
	}
	if faulty {
		switch g.rng.intn(7) {
		case 0:
			e = g.entRef(true)
		case 1:
			if len(has) > 0 {
				add = append(add, has[0]) // add present
			}
		case 2:
			if len(lacks) > 0 {
				rem = append(rem, lacks[0]) // remove absent
			}
		case 3:
			if len(add) > 0 {
				add = append(add, add[0])
			}
		case 4:
			if len(rem) > 0 {
				rem = append(rem, rem[0])
			}
		case 5:
			if len(has) > 0 { // same id added and removed
				add = append(add, has[0])
				rem = append(rem, has[0])
			}
		case 6:
			if hasRel && len(lacksRel) > 0 { // second relation
				add = append(add, lacksRel[0])
			}
		}
	}
	switch g.rng.intn(8) {
	case 0:
		g.do(fmt.Sprintf("add %s %s", e, idsStr(add)))
	case 1:
		g.do(fmt.Sprintf("rem %s %s", e, idsStr(rem)))
	case 2:
		g.do(fmt.Sprintf("assign %s %s", e, g.pairsStr(add)))
	case 3:
		// Builder.Add
		kind := "I " + idsStr(add)
		if g.rng.chance(50) && len(add) > 0 {
			kind = "V " + g.pairsStr(add)
		}
		rel, tgt := "-", "-"
		if r, ok := g.relOfSet(add); ok && g.rng.chance(70) {
			rel = "R " + strconv.Itoa(r)
			tgt = "T " + g.targetRef(e)
		}
		g.do(fmt.Sprintf("bld %s %s add %s %s", kind, rel, e, tgt))
	case 4:
		// Relations.Exchange
		all := append(append([]int{}, has...), add...)
		if r, ok := g.relOfSet(all); ok && !contains(rem, r) || faulty {
			if !ok && len(g.rels) > 0 {
				r = g.rels[0]
			}
			g.do(fmt.Sprintf("relxchg %s %s %s %d %s", e, idsStr(add), idsStr(rem), r, g.targetRef(e)))
		} else {
			g.do(fmt.Sprintf("xchg %s %s %s", e, idsStr(add), idsStr(rem)))
		}
	default:
		g.do(fmt.Sprintf("xchg %s %s %s", e, idsStr(add), idsStr(rem)))
	}
}

func (g *Gen) genValues(faulty bool) {
	al := g.aliveIdx()
	if len(al) == 0 {
		return
	}
	idx := pick(g.rng, al)
	e := "e" + strconv.Itoa(idx)
	has := g.compsOf(idx)
	all := append(append([]int{}, g.plain...), g.rels...)
	c := pick(g.rng, all)
	if len(has) > 0 && !faulty {
		c = pick(g.rng, has)
	}
	if faulty && g.rng.chance(30) {
		e = g.entRef(true)
	}
	if faulty && g.rng.chance(20) {
		g.do(fmt.Sprintf("%s %s %d", pick(g.rng, []string{"hasu", "relu", "getu"}), e, c))
		return
	}
	switch g.rng.intn(5) {
	case 0:
		g.do(fmt.Sprintf("set %s %d %d", e, c, g.val()))
	case 1:
		g.do(fmt.Sprintf("write %s %d %d", e, c, g.val()))
	case 2:
		g.do(fmt.Sprintf("get %s %d", e, c))
	case 3:
		g.do(fmt.Sprintf("has %s %d", e, c))
	default:
		g.do(pick(g.rng, []string{"mask ", "ids ", "alive "}) + e)
	}
}

func (g *Gen) genRelation(faulty bool) {
	if len(g.rels) == 0 {
		return
	}
	al := g.aliveIdx()
	// prefer entities carrying a relation
	cand := []int{}
	for _, i := range al {
		if _, ok := g.relOfSet(g.compsOf(i)); ok {
			cand = append(cand, i)
		}
	}
	if len(cand) == 0 {
		// create one
		r := pick(g.rng, g.rels)
		comps := append(g.subset(g.plain, 2), r)
		g.do(fmt.Sprintf("bld I %s R %d new T %s", idsStr(comps), r, g.targetRef("")))
		return
	}
	idx := pick(g.rng, cand)
	e := "e" + strconv.Itoa(idx)
	r, _ := g.relOfSet(g.compsOf(idx))
	if faulty {
		switch g.rng.intn(3) {
		case 0:
			e = g.entRef(true)
		case 1:
			all := append(append([]int{}, g.plain...), g.rels...)
			r = pick(g.rng, all)
		}
	}
	switch g.rng.intn(14) {
	case 13:
		// a rejected creation with a target on a (probably new) plain component set creates the
		// table before the relation check fails; a relation added later without a target must
		// still read as the zero target (no phantom target left behind in the plain table)
		set := g.subset(g.plain, 1+g.rng.intn(3))
		if len(set) > 0 {
			m := pick(g.rng, []string{"new", "batch 2", "batchq 3"})
			kind := "I " + idsStr(set)
			if g.rng.chance(40) {
				kind = "V " + g.pairsStr(set)
			}
			g.do(fmt.Sprintf("bld %s R %d %s T %s", kind, r, m, g.targetRef("")))
			h0 := len(g.r.handles)
			g.do("new " + idsStr(set))
			if len(g.r.handles) > h0 {
				ne := fmt.Sprintf("e%d", h0)
				switch g.rng.intn(3) {
				case 0:
					g.do(fmt.Sprintf("add %s 1 %d", ne, r))
				case 1:
					g.do(fmt.Sprintf("assign %s %s", ne, g.pairsStr([]int{r})))
				default:
					g.do(fmt.Sprintf("b_add A %s 1 %d", idsStr(set), r))
				}
				g.do(fmt.Sprintf("relget %s %d", ne, r))
			}
		}
	case 10:
		// swap the relation component for another one (target must become zero), also with a dead old target
		others := []int{}
		for _, x := range g.rels {
			if x != r {
				others = append(others, x)
			}
		}
		if len(others) > 0 {
			o := pick(g.rng, others)
			g.do(fmt.Sprintf("xchg %s 1 %d 1 %d", e, o, r))
			g.do(fmt.Sprintf("relget %s %d", e, o))
		}
	case 11:
		// kill the target, recycle its id, retarget to the new occupant of that id
		out := g.do(fmt.Sprintf("relget %s %d", e, r))
		if len(out) > 0 && strings.HasPrefix(out[0], "= ok ") {
			for i, h := range g.r.handles {
				if showEnt(h) == out[0][5:] && !h.IsZero() && i != idx {
					g.do(fmt.Sprintf("rm e%d", i))
					g.do("new " + idsStr(g.subset(g.plain, 1)))
					g.do(fmt.Sprintf("relset %s %d e%d", e, r, len(g.r.handles)-1))
					g.do(fmt.Sprintf("relget %s %d", e, r))
					break
				}
			}
		}
	case 12:
		// retire a table, register a filter on its node, reuse the table for another target
		comps := g.compsOf(idx)
		out := g.do(fmt.Sprintf("relget %s %d", e, r))
		if len(out) > 0 && strings.HasPrefix(out[0], "= ok ") && out[0] != "= ok 0:0" {
			g.do("b_rment R A " + idsStr(comps) + " " + e[:0] + "E" + out[0][5:])
			for i, h := range g.r.handles {
				if showEnt(h) == out[0][5:] && !h.IsZero() {
					g.do(fmt.Sprintf("rm e%d", i))
					break
				}
			}
			f := pick(g.rng, []string{"A " + idsStr([]int{r}), "A " + idsStr(comps), "R A " + idsStr([]int{r}) + " E" + out[0][5:]})
			co := g.do("creg " + f)
			nid := -1
			if g.rng.chance(40) && len(g.openQueries()) == 0 {
				before := len(g.r.comps)
				n := 16 - before%16 + 1
				for i := 0; i < n && len(g.r.comps) < ecs.MaskTotalBits; i++ {
					ro := g.do("reg " + pick(g.rng, []string{"b8", "b4", "b2"}))
					if len(ro) > 0 && strings.HasPrefix(ro[0], "= ok ") {
						nid, _ = strconv.Atoi(strings.Fields(ro[0])[2])
						g.plain = append(g.plain, nid)
					}
				}
			}
			h0 := len(g.r.handles)
			g.do(fmt.Sprintf("bld I %s R %d batch %d T %s", idsStr(comps), r, 1+g.rng.intn(3), g.targetRef("")))
			if nid >= 0 {
				for e := h0; e < len(g.r.handles); e++ {
					g.do(fmt.Sprintf("has e%d %d", e, nid))
					g.do(fmt.Sprintf("get e%d %d", e, nid))
				}
			}
			g.do("qall " + f)
			if len(co) > 0 && strings.HasPrefix(co[0], "= ok c") {
				g.do("qall C " + co[0][6:])
				if g.rng.chance(70) && len(g.openQueries()) == 0 {
					// batch operations through the registration made while the table was retired
					for _, x := range g.plain {
						if !contains(comps, x) {
							g.do(fmt.Sprintf("b_add C %s %s", co[0][6:], idsStr([]int{x})))
							break
						}
					}
					g.do("b_rment C " + co[0][6:])
					g.do("stats")
					g.do(fmt.Sprintf("new %s", idsStr(g.compSet(2))))
					g.do(fmt.Sprintf("new %s", idsStr(g.compSet(2))))
				}
			}
		}
	case 0, 1:
		g.do(fmt.Sprintf("relget %s %d", e, r))
	case 2:
		// kill the target of this entity
		out := g.do(fmt.Sprintf("relget %s %d", e, r))
		if len(out) > 0 && strings.HasPrefix(out[0], "= ok ") {
			for i, h := range g.r.handles {
				if showEnt(h) == out[0][5:] && !h.IsZero() {
					g.do(fmt.Sprintf("rm e%d", i))
					break
				}
			}
		}
	case 3:
		g.do(fmt.Sprintf("relset %s %d %s", e, r, e)) // self target
	default:
		g.do(fmt.Sprintf("relset %s %d %s", e, r, g.targetRef(e)))
	}
}

func (g *Gen) genBatch(faulty bool) {
	all := append(append([]int{}, g.plain...), g.rels...)
	q := ""
	if g.rng.chance(35) {
		q = "q"
	}
	switch g.rng.intn(10) {
	case 0, 1: // add X to everything matching inc without X
		x := g.subset(g.plain, 2)
		if len(x) == 0 {
			return
		}
		rest := []int{}
		for _, c := range all {
			if !contains(x, c) {
				rest = append(rest, c)
			}
		}
		f := "W " + idsStr(g.subset(rest, 2)) + " " + idsStr(x)
		f = g.maybeCached(f)
		if faulty {
			f = g.filterStr(0)
		}
		if g.rng.chance(50) {
			g.do(fmt.Sprintf("b_add%s %s %s", q, f, idsStr(x)))
		} else {
			g.do(fmt.Sprintf("b_xchg%s %s %s 0", q, f, idsStr(x)))
		}
	case 2, 3: // remove X from everything that has X
		x := g.subset(all, 2)
		if len(x) == 0 {
			return
		}
		f := g.maybeCached("A " + idsStr(x))
		if faulty {
			f = g.filterStr(0)
		}
		if g.rng.chance(50) {
			g.do(fmt.Sprintf("b_rem%s %s %s", q, f, idsStr(x)))
		} else {
			g.do(fmt.Sprintf("b_xchg%s %s 0 %s", q, f, idsStr(x)))
		}
	case 4: // exchange: remove X, add Y
		x := g.subset(g.plain, 1)
		if len(x) == 0 {
			return
		}
		rest := []int{}
		for _, c := range g.plain {
			if !contains(x, c) {
				rest = append(rest, c)
			}
		}
		y := g.subset(rest, 1)
		if len(y) == 0 {
			return
		}
		f := g.maybeCached("W " + idsStr(x) + " " + idsStr(y))
		g.do(fmt.Sprintf("b_xchg%s %s %s %s", q, f, idsStr(y), idsStr(x)))
	case 5, 6: // set relation
		if len(g.rels) == 0 {
			return
		}
		r := pick(g.rng, g.rels)
		f := "A " + idsStr([]int{r})
		if g.rng.chance(40) {
			f = "R A " + idsStr([]int{r}) + " " + g.targetRef("")
		}
		f = g.maybeCached(f)
		if faulty && g.rng.chance(50) {
			f = g.filterStr(0)
		}
		cmd := pick(g.rng, []string{"b_setrel", "rb_set"})
		tg := g.targetRef("")
		if g.rng.chance(35) {
			// an existing, empty destination table that comes after its sources: a child of the
			// new target with the components of one of the entities to move, created and removed
			for _, i := range g.aliveIdx() {
				cs := g.compsOf(i)
				if contains(cs, r) {
					out := g.do(fmt.Sprintf("bld I %s R %d new T %s", idsStr(cs), r, tg))
					if len(out) > 0 && strings.HasPrefix(out[0], "= ok ") {
						g.do(fmt.Sprintf("rm e%d", len(g.r.handles)-1))
					}
					break
				}
			}
		}
		g.do(fmt.Sprintf("%s%s %s %d %s", cmd, q, f, r, tg))
	case 7: // Relations.ExchangeBatch: add relation r with target
		if len(g.rels) == 0 {
			return
		}
		if len(g.plain) >= 2 && g.rng.chance(40) {
			// children of two parents that already carry the relation get one more component and ALL become children
			// of the first parent — for one source table the target changes, for the other it does not — while a narrow
			// listener (target changes only / relation changes only / everything, restricted to the relation) is installed
			r := pick(g.rng, g.rels)
			base := g.plain[0]
			extra := g.plain[1]
			g.do("new 0")
			p1 := len(g.r.handles) - 1
			g.do("new 0")
			p2 := len(g.r.handles) - 1
			first, second := p1, p2
			if g.rng.chance(50) {
				first, second = p2, p1
			}
			for i := 0; i < 1+g.rng.intn(2); i++ {
				g.do(fmt.Sprintf("bld I %s R %d new T e%d", idsStr([]int{base, r}), r, first))
				g.do(fmt.Sprintf("bld I %s R %d new T e%d", idsStr([]int{base, r}), r, second))
			}
			g.do(pick(g.rng, []string{"lst 32 -", "lst 16 -", "lst 48 -", fmt.Sprintf("lst 63 C %s", idsStr([]int{r}))}))
			g.do(fmt.Sprintf("rb_xchg%s W %s %s %s 0 %d e%d", q, idsStr([]int{base, r}), idsStr([]int{extra}), idsStr([]int{extra}), r, p1))
			if q == "q" {
				g.do(fmt.Sprintf("qx %d", len(g.r.queries)-1))
			}
			g.do("lst 63 -")
			return
		}
		r := pick(g.rng, g.rels)
		f := g.maybeCached("W " + idsStr(g.subset(g.plain, 1)) + " " + idsStr(g.rels))
		g.do(fmt.Sprintf("rb_xchg%s %s %s 0 %d %s", q, f, idsStr([]int{r}), r, g.targetRef("")))
	default: // remove entities
		f := g.filterStr(0)
		if g.rng.chance(60) {
			f = g.maybeCached("A " + idsStr(g.subset(all, 2)))
		}
		g.do("b_rment " + f)
		// the slots of the removed entities hold no table any more: the unchecked accessors panic on them
		// exactly as after single removals
		if d := g.deadIdx(); len(d) > 0 && len(all) > 0 {
			for k := 0; k < 2; k++ {
				if g.rng.chance(60) {
					g.do(fmt.Sprintf("%s e%d %d", pick(g.rng, []string{"hasu", "hasu", "relu", "getu"}), pick(g.rng, d), pick(g.rng, all)))
				}
			}
		}
	}
}

// maybeCached registers the filter (or reuses a registration) with some probability.
func (g *Gen) maybeCached(f string) string {
	if g.rng.chance(25) {
		out := g.do("creg " + f)
		if len(out) > 0 && strings.HasPrefix(out[0], "= ok c") {
			return "C " + out[0][6:]
		}
	}
	return f
}

func (g *Gen) genCache(faulty bool) {
	if faulty {
		switch g.rng.intn(3) {
		case 0:
			if len(g.r.cfilters) > 0 {
				g.do("creg C " + strconv.Itoa(g.rng.intn(len(g.r.cfilters)))) // double registration
				return
			}
		case 1:
			if len(g.r.cfilters) > 0 {
				k := g.rng.intn(len(g.r.cfilters))
				g.do(fmt.Sprintf("cunreg %d", k))
				g.do(fmt.Sprintf("cunreg %d", k)) // twice
				g.do(fmt.Sprintf("qall C %d", k)) // stale
				return
			}
		}
	}
	if g.rng.chance(70) || len(g.r.cfilters) == 0 {
		f := g.filterStr(0)
		out := g.do("creg " + f)
		if len(out) > 0 && strings.HasPrefix(out[0], "= ok c") && !strings.HasPrefix(f, "C ") {
			// registered and original form must select the same (C07)
			g.do("qall " + f)
			g.do("qall C " + out[0][6:])
			if g.rng.chance(40) && len(g.openQueries()) == 0 {
				// tables that come into existence after the registration
				for i := 0; i < 1+g.rng.intn(3); i++ {
					g.do(fmt.Sprintf("new %s", idsStr(g.compSet(3))))
				}
				g.do("qall " + f)
				g.do("qall C " + out[0][6:])
			}
		}
	} else {
		g.do(fmt.Sprintf("cunreg %d", g.rng.intn(len(g.r.cfilters))))
	}
}

func (g *Gen) genQuery(faulty bool) {
	open := g.openQueries()
	if len(open) == 0 || (len(open) < g.p.maxOpenQ && g.rng.chance(30)) {
		g.do("q " + g.filterStr(0))
		return
	}
	k := pick(g.rng, open)
	q := g.r.queries[k]
	all := append(append([]int{}, g.plain...), g.rels...)
	if faulty && g.rng.chance(25) && len(g.r.comps) < ecs.MaskTotalBits {
		// registration is refused while locked; the registry must be exactly as before (the
		// next successful registration shows the id and the relation flag)
		g.do("reg " + pick(g.rng, []string{"rel", "relp", "b8", "z"}))
		g.refused = true
		return
	}
	x := g.rng.intn(100)
	if q.pos && g.rng.chance(50) {
		x = 62 + g.rng.intn(33)
	}
	switch {
	case x < 30:
		g.do(fmt.Sprintf("qn %d", k))
	case x < 42:
		n := pick(g.rng, []int{1, 2, 3, 5, 8})
		if faulty {
			n = pick(g.rng, []int{0, -1})
		}
		g.do(fmt.Sprintf("qs %d %d", k, n))
	case x < 52:
		g.do(fmt.Sprintf("qc %d", k))
	case x < 62:
		out := g.do(fmt.Sprintf("qc %d", k))
		cnt := 0
		if len(out) > 0 && strings.HasPrefix(out[0], "= ok ") {
			cnt, _ = strconv.Atoi(out[0][5:])
		}
		i := 0
		if cnt > 0 {
			i = g.rng.intn(cnt)
		}
		if faulty || cnt == 0 {
			i = pick(g.rng, []int{-1, cnt, cnt + 3})
		}
		g.do(fmt.Sprintf("qa %d %d", k, i))
	case x < 95 && q.pos:
		c := pick(g.rng, all)
		switch g.rng.intn(7) {
		case 0:
			g.do(fmt.Sprintf("qe %d", k))
		case 1:
			g.do(fmt.Sprintf("qh %d %d", k, c))
		case 2:
			g.do(fmt.Sprintf("qg %d %d", k, c))
		case 3:
			g.do(fmt.Sprintf("qm %d", k))
		case 4:
			g.do(fmt.Sprintf("qi %d", k))
		case 5:
			if len(g.rels) > 0 {
				r := pick(g.rng, g.rels)
				if faulty {
					r = c
				}
				g.do(fmt.Sprintf("qr %d %d", k, r))
			}
		default:
			g.do(fmt.Sprintf("qw %d %d %d", k, c, g.val()))
		}
	case x < 96:
		g.do(fmt.Sprintf("qx %d", k))
	case x < 98:
		// a registration rejected under lock must leave no trace: the next type registered
		// after unlocking gets the same id and must not inherit anything
		g.do("reg " + pick(g.rng, []string{"rel", "relp", "rel", "b8"}))
		for _, q := range g.openQueries() {
			g.do(fmt.Sprintf("qx %d", q))
		}
		out := g.do("reg " + pick(g.rng, []string{"b8", "b4", "z"}))
		if len(out) > 0 && strings.HasPrefix(out[0], "= ok ") {
			id, _ := strconv.Atoi(strings.Fields(out[0])[2])
			g.plain = append(g.plain, id)
			if len(g.rels) > 0 {
				g.do(fmt.Sprintf("new 2 %d %d", id, g.rels[0]))
			}
		}
	default:
		// structural operation under lock: must panic `locked` and change nothing
		g.do("shape pifnc")
		switch g.rng.intn(8) {
		case 0:
			g.do("new " + idsStr(g.compSet(2)))
		case 1:
			g.do("rm " + g.entRef(false))
		case 2:
			g.genExchange(false)
		case 3:
			g.genBatch(false)
		case 4:
			g.doReset()
		case 5:
			g.do("reg " + pick(g.rng, []string{"b8", "rel", "relp", "z"}))
		case 6:
			g.do("resreg")
			if n := len(g.r.resIDs); n > 0 {
				g.do(fmt.Sprintf("resadd %d %d", n-1, 1+g.rng.intn(100)))
				g.do(fmt.Sprintf("resget %d", n-1))
			}
		default:
			g.do("reg b8")
		}
		g.do("shape pifnc")
		if g.rng.chance(50) {
			// after unlocking, the next registration must not inherit anything from a rejected one
			for _, k := range g.openQueries() {
				g.do(fmt.Sprintf("qx %d", k))
			}
			g.lateReg(1)
		}
	}
}

// lateReg registers n more component types while tables exist (also crossing a layout-chunk
// boundary of 16 ids), then uses the new ids on existing, new and reused tables.
func (g *Gen) lateReg(n int) {
	if len(g.openQueries()) > 0 {
		return
	}
	if g.rng.chance(50) {
		// go up to and past the next multiple of 16
		n = 16 - len(g.r.comps)%16 + 1 + g.rng.intn(2)
	}
	newIDs := []int{}
	for i := 0; i < n && len(g.r.comps) < ecs.MaskTotalBits; i++ {
		out := g.do("reg " + pick(g.rng, []string{"b8", "b4", "z", "b16"}))
		if len(out) > 0 && strings.HasPrefix(out[0], "= ok ") {
			id, _ := strconv.Atoi(strings.Fields(out[0])[2])
			newIDs = append(newIDs, id)
		}
	}
	if len(newIDs) == 0 {
		return
	}
	g.plain = append(g.plain, newIDs...)
	nid := newIDs[len(newIDs)-1]
	for _, i := range g.aliveIdx() {
		if g.rng.chance(40) {
			g.do(fmt.Sprintf("has e%d %d", i, nid))
			g.do(fmt.Sprintf("get e%d %d", i, nid))
		}
	}
	// reuse retired relation tables with a new target and look at the new ids there
	if len(g.rels) > 0 {
		r := pick(g.rng, g.rels)
		for k := 0; k < 3; k++ {
			comps := append(g.subset(g.plain[:len(g.plain)-len(newIDs)], 2), r)
			out := g.do(fmt.Sprintf("bld I %s R %d new T %s", idsStr(comps), r, g.targetRef("")))
			if len(out) > 0 && strings.HasPrefix(out[0], "= ok ") {
				e := len(g.r.handles) - 1
				g.do(fmt.Sprintf("has e%d %d", e, nid))
				g.do(fmt.Sprintf("get e%d %d", e, nid))
				g.do(fmt.Sprintf("add e%d 1 %d", e, nid))
				g.do(fmt.Sprintf("get e%d %d", e, nid))
			}
		}
	}
	g.do("snapshot")
}

// finale: dump, then load the same dump into fresh worlds (ids above 64, recycled high ids,
// the same dump loaded twice) and continue there.
func (g *Gen) freshLoadFinale() {
	for _, k := range g.openQueries() {
		g.do(fmt.Sprintf("qx %d", k))
	}
	inc := pick(g.rng, []int{16, 16, 4, 128, 7})
	g.do(fmt.Sprintf("world %d 0 %d", inc, ecs.MaskTotalBits))
	n := pick(g.rng, []int{15, 15, 70, 90, 31, 140})
	if inc == 16 && g.rng.chance(60) {
		n = 15 // the dump's slice capacity then equals the receiving world's rounded capacity
	}
	g.do(fmt.Sprintf("bld I 0 - batch %d -", n))
	removed := 0
	for i := 0; i < 6 && n > 15; i++ {
		g.do(fmt.Sprintf("rm e%d", n-1-g.rng.intn(n/3)))
		removed++
	}
	out := g.do("dump")
	if len(out) == 0 || !strings.HasPrefix(out[0], "= ok d") {
		return
	}
	k := strings.Fields(out[0])[2][1:]
	kk, _ := strconv.Atoi(k)
	// value copies: the generator must not look through the dump object the world may alias
	d := ecs.EntityDump{Entities: append([]ecs.Entity{}, g.r.dumps[kk].Entities...), Alive: append([]uint32{}, g.r.dumps[kk].Alive...)}
	for round := 0; round < 2; round++ {
		g.do(fmt.Sprintf("world+ %d 0 %d", pick(g.rng, []int{inc, inc, inc, 4, 128}), ecs.MaskTotalBits))
		g.do("load " + k + g.viaJSON())
		g.do("shape pif")
		// touch a high id first: remove a high alive entity / recycle a high free id
		alive := map[uint32]bool{}
		for _, a := range d.Alive {
			alive[a] = true
		}
		if round == 1 {
			// second world loaded from the same dump: everything alive in the dump is alive here,
			// whatever happened in the first one
			for i := len(d.Entities) - 1; i > 0 && i > len(d.Entities)-8; i-- {
				g.do(fmt.Sprintf("alive E%d:%d", i, d.Entities[i].Generation()))
			}
		}
		for i := len(d.Entities) - 1; i > 0 && i > len(d.Entities)-8; i-- {
			e := d.Entities[i]
			if alive[uint32(i)] && g.rng.chance(50) {
				g.do(fmt.Sprintf("rm E%d:%d", i, e.Generation()))
			}
		}
		g.do("new 0")
		g.do("new 0")
		for i := 1; i < len(d.Entities); i++ {
			if alive[uint32(i)] && g.rng.chance(30) {
				g.do(fmt.Sprintf("alive E%d:%d", i, d.Entities[i].Generation()))
			}
		}
		g.do("stats")
		g.do("dump")
		g.do("shape pif")
	}
}

// viaJSON: half of the loads take the dump through encoding/json first, as an application
// persisting it would
func (g *Gen) viaJSON() string {
	if g.rng.chance(50) {
		return " json"
	}
	return ""
}

func (g *Gen) genDumpLoad(faulty bool) {
	if len(g.openQueries()) > 0 && !faulty {
		return
	}
	if !faulty && g.rng.chance(15) {
		// a world with a history but no alive entity left
		g.do("b_rment A 0")
	}
	out := g.do("dump")
	if len(out) == 0 || !strings.HasPrefix(out[0], "= ok d") {
		return
	}
	k := strings.Fields(out[0])[2][1:]
	if faulty {
		g.do("load " + k) // into a used world: refused
		return
	}
	if g.rng.chance(60) {
		if g.rng.chance(50) {
			// keep using the dumped world before loading the dump
			for i := 0; i < 1+g.rng.intn(4); i++ {
				if g.rng.chance(50) {
					g.do("rm " + g.entRef(false))
				} else {
					g.do("new " + idsStr(g.compSet(2)))
				}
			}
		}
		if g.rng.chance(30) {
			k = strconv.Itoa(g.rng.intn(len(g.r.dumps)))
		}
		g.doReset()
		g.do("load " + k + g.viaJSON())
		g.do("dump")
		g.do("shape pif")
		kk, _ := strconv.Atoi(k)
		for _, e := range g.r.dumps[kk].Entities {
			if !e.IsZero() && g.rng.chance(50) {
				g.do(fmt.Sprintf("alive E%d:%d", e.ID(), e.Generation()))
			}
			// the unchecked accessors on every dumped slot: a slot that was free in the dump holds no table
			if g.rng.chance(35) && len(g.r.comps) > 0 {
				g.do(fmt.Sprintf("%s E%d:%d %d", pick(g.rng, []string{"hasu", "hasu", "relu", "getu"}), e.ID(), e.Generation(), g.rng.intn(len(g.r.comps))))
			}
		}
		g.do("qall A 0")
		g.do("new 0")
		g.do("new 0")
		if g.rng.chance(40) {
			// roll back: reset and load the same dump again
			g.do("rm " + g.entRef(false))
			g.doReset()
			g.do("load " + k + g.viaJSON())
			for _, e := range g.r.dumps[kk].Entities {
				if !e.IsZero() && g.rng.chance(50) {
					g.do(fmt.Sprintf("alive E%d:%d", e.ID(), e.Generation()))
				}
			}
			g.do("dump")
			g.do("new 0")
		}
	}
}

// doReset resets the world and, often, looks a registered resource type up again by its type
// (out of registration order): ids obtained before a reset stay valid
func (g *Gen) doReset() {
	// component sets of entities that have a relation, before the reset
	type relSet struct {
		comps []int
		rel   int
	}
	sets := []relSet{}
	for _, i := range g.aliveIdx() {
		cs := g.compsOf(i)
		if r, ok := g.relOfSet(cs); ok && len(sets) < 3 {
			sets = append(sets, relSet{cs, r})
		}
	}
	g.do("reset")
	if len(sets) > 0 && len(g.r.cfilters) > 0 && g.rng.chance(60) {
		// the tables retired by the reset are re-used for other targets; then look through the
		// filters that were registered before the reset
		g.do("new 0")
		t1 := len(g.r.handles) - 1
		g.do("new 0")
		t2 := len(g.r.handles) - 1
		for k, s := range sets {
			t := t1
			if k%2 == 1 {
				t = t2
			}
			g.do(fmt.Sprintf("bld I %s R %d new T e%d", idsStr(s.comps), s.rel, t))
		}
		n := len(g.r.cfilters)
		for k := n - 1; k >= 0 && k >= n-5; k-- {
			g.do(fmt.Sprintf("qall C %d", k))
		}
		g.do("snapshot")
		return
	}
	if g.rng.chance(30) {
		// a second reset of a world in which nothing was created since the first: resources
		// (and registered filters) added in between must be gone as well
		if n := len(g.r.resIDs); n > 0 {
			k := g.rng.intn(n)
			g.do(fmt.Sprintf("resadd %d %d", k, 1+g.rng.intn(1000)))
			g.do("reset")
			g.do(fmt.Sprintf("reshas %d", k))
			g.do(fmt.Sprintf("resadd %d %d", k, 1+g.rng.intn(1000)))
		} else {
			g.do("reset")
		}
	}
	if n := len(g.r.resIDs); n > 0 && g.rng.chance(60) {
		g.do(fmt.Sprintf("reslook %d", n-1-g.rng.intn(min(n, 3))))
	}
}

func (g *Gen) genResource(faulty bool) {
	n := len(g.r.resIDs)
	if n == 0 {
		return
	}
	k := g.rng.intn(n)
	if g.rng.chance(30) {
		k = n - 1 - g.rng.intn(min(n, 3))
	}
	if g.rng.chance(8) && n < 40 {
		g.do("resreg")
		return
	}
	if g.rng.chance(10) {
		g.do(fmt.Sprintf("reslook %d", k))
		return
	}
	switch g.rng.intn(5) {
	case 0, 1:
		g.do(fmt.Sprintf("resadd %d %d", k, 1+g.rng.intn(1000)))
	case 2:
		g.do(fmt.Sprintf("resrem %d", k))
	case 3:
		g.do(fmt.Sprintf("resget %d", k))
	default:
		g.do(fmt.Sprintf("reshas %d", k))
	}
}

func (g *Gen) subStr() string {
	s := strconv.Itoa(g.rng.intn(64))
	if g.rng.chance(35) {
		s = "63"
	}
	all := append(append([]int{}, g.plain...), g.rels...)
	if g.rng.chance(50) {
		return s + " -"
	}
	return s + " C " + idsStr(g.subset(all, 3))
}

// narrowListener installs a listener subscribed to one or two trigger bits only and follows it
// with operations whose events carry those bits together with others: the selection rule is
// "any subscribed bit", whatever else the operation did (C12)
func (g *Gen) narrowListener() {
	bits := []int{1, 2, 4, 8, 16, 32}
	s := pick(g.rng, bits)
	if g.rng.chance(50) {
		s |= pick(g.rng, bits)
	}
	comps := " -"
	if g.rng.chance(35) && len(g.rels) > 0 {
		comps = " C " + idsStr([]int{pick(g.rng, g.rels)})
	}
	if g.rng.chance(25) {
		g.do(fmt.Sprintf("disp 2 %d%s %d -", s, comps, pick(g.rng, bits)))
	} else {
		g.do(fmt.Sprintf("lst %d%s", s, comps))
	}
	if len(g.rels) == 0 || len(g.plain) == 0 {
		return
	}
	r := pick(g.rng, g.rels)
	x := g.subset(g.plain, 1+g.rng.intn(2))
	if len(x) == 0 {
		return
	}
	// a few plain entities, then batch relation changes through every batch entry point
	g.do(fmt.Sprintf("bld I %s - batch %d -", idsStr(x), 1+g.rng.intn(3)))
	f := "W " + idsStr(x) + " " + idsStr(g.rels)
	q := ""
	if g.rng.chance(30) {
		q = "q"
	}
	switch g.rng.intn(4) {
	case 0:
		g.do(fmt.Sprintf("b_add%s %s %s", q, f, idsStr([]int{r})))
	case 1:
		g.do(fmt.Sprintf("b_xchg%s %s %s %s", q, f, idsStr([]int{r}), idsStr(x[:1])))
	case 2:
		g.do(fmt.Sprintf("rb_xchg%s %s %s 0 %d %s", q, f, idsStr([]int{r}), r, g.targetRef("")))
	default:
		g.do(fmt.Sprintf("rb_xchg%s %s %s %s %d %s", q, f, idsStr([]int{r}), idsStr(x[:1]), r, g.targetRef("")))
	}
	if q == "q" {
		if open := g.openQueries(); len(open) > 0 {
			g.do(fmt.Sprintf("qx %d", open[len(open)-1]))
		}
	}
	f2 := "A " + idsStr([]int{r})
	switch g.rng.intn(4) {
	case 0:
		g.do(fmt.Sprintf("b_rem %s %s", f2, idsStr([]int{r})))
	case 1:
		g.do(fmt.Sprintf("b_setrel %s %d %s", f2, r, g.targetRef("")))
	case 2:
		g.do(fmt.Sprintf("rb_set %s %d %s", f2, r, g.targetRef("")))
	default:
		g.do("b_rment " + f2)
	}
}

func (g *Gen) genListener() {
	if g.rng.chance(30) {
		g.narrowListener()
		return
	}
	switch g.rng.intn(6) {
	case 0:
		g.do("nolst")
	case 1, 2:
		g.do("lst " + g.subStr())
	case 3:
		g.do("lst 63 -")
	case 4:
		n := pick(g.rng, []int{0, 0, 1, 2, 3})
		parts := []string{strconv.Itoa(n)}
		for i := 0; i < n; i++ {
			parts = append(parts, g.subStr())
		}
		g.do("disp " + strings.Join(parts, " "))
		if n == 0 || g.rng.chance(30) {
			// sub-listeners added after the dispatcher was installed (an empty dispatcher subscribes to
			// nothing at that moment)
			for k := 1 + g.rng.intn(2); k > 0; k-- {
				g.do("dispadd " + g.subStr())
			}
		}
	default:
		if g.r.disp != nil {
			g.do("dispadd " + g.subStr())
		} else {
			g.do("lst 63 -")
		}
	}
}

func (g *Gen) genObserve() {
	if g.p.ptrComps && g.rng.chance(40) {
		g.do("gc")
		return
	}
	switch g.rng.intn(10) {
	case 0, 1, 2:
		g.do("snapshot")
	case 3, 4:
		g.do("shape pifncl")
	case 5:
		g.do("inv")
	case 6:
		g.do("stats")
	case 7:
		g.do("locked")
	case 8:
		if len(g.r.handles) > g.epochStart {
			h := g.r.handles[g.epochStart+g.rng.intn(len(g.r.handles)-g.epochStart)]
			g.do(fmt.Sprintf("alive E%d:%d", h.ID(), h.Generation()))
		}
	default:
		if len(g.r.handles) > 0 {
			g.do(fmt.Sprintf("json e%d", g.rng.intn(len(g.r.handles))))
		}
	}
}

// Generate produces one sequence of about n operations.
func Generate(seed uint64, p profile, n int) (g *Gen) {
	g = &Gen{r: NewRunner(), rng: &rng{s: seed}, p: p}
	defer func() {
		// a probe of the generator itself (Ids, Stats, …) crashed: the world is corrupt.
		// Keep the operations issued so far; the comparison with the model decides.
		if x := recover(); x != nil {
			g.ops = append(g.ops, fmt.Sprintf("# generator probe crashed: %v", x))
			g.outs = append(g.outs, nil)
			defer func() { recover() }()
			g.do("snapshot")
		}
	}()
	g.setup()
	if len(g.ops) > 40 {
		n += len(g.ops) - 40 // long setups (padded registrations, the full resource range) do not eat the budget
	}
	for len(g.ops) < n {
		g.step()
	}
	// final observation: close everything, full snapshot and hidden state
	for _, k := range g.openQueries() {
		g.do(fmt.Sprintf("qx %d", k))
	}
	g.do("snapshot")
	g.do("shape pifncl")
	g.do("inv")
	if p.name == "churn" || p.name == "reset" || (p.name == "mixed" && g.rng.chance(30)) {
		g.freshLoadFinale()
	}
	return g
}
