package main

import (
	"bufio"
	"encoding/json"
	"fmt"
	"os"
	"strconv"
	"sync"
)

func main() {
	if len(os.Args) < 2 {
		fmt.Fprintln(os.Stderr, "usage: harness run <ops> | gen ...")
		os.Exit(2)
	}
	switch os.Args[1] {
	case "run":
		// run <opsfile|-> : execute op lines, print result lines to stdout
		in := os.Stdin
		if len(os.Args) > 2 && os.Args[2] != "-" {
			f, err := os.Open(os.Args[2])
			if err != nil {
				fmt.Fprintln(os.Stderr, err)
				os.Exit(2)
			}
			defer f.Close()
			in = f
		}
		r := NewRunner()
		if k, err := strconv.Atoi(os.Getenv("VERIF_GC_EVERY")); err == nil {
			r.gcEvery = k
		}
		sc := bufio.NewScanner(in)
		sc.Buffer(make([]byte, 1<<20), 1<<26)
		out := bufio.NewWriter(os.Stdout)
		defer out.Flush()
		for sc.Scan() {
			for _, l := range r.Exec(sc.Text()) {
				out.WriteString(l)
				out.WriteByte('\n')
			}
		}
	case "par":
		// par <outprefix> <ops1> <ops2> ... : run each op file in its own goroutine, concurrently
		// (one world per goroutine, the documented pattern); write outputs to <outprefix>.<i>
		files := os.Args[3:]
		var wg sync.WaitGroup
		for i, fn := range files {
			wg.Add(1)
			go func(i int, fn string) {
				defer wg.Done()
				f, err := os.Open(fn)
				if err != nil {
					panic(err)
				}
				defer f.Close()
				o, err := os.Create(fmt.Sprintf("%s.%d", os.Args[2], i))
				if err != nil {
					panic(err)
				}
				defer o.Close()
				w := bufio.NewWriter(o)
				defer w.Flush()
				r := NewRunner()
				sc := bufio.NewScanner(f)
				sc.Buffer(make([]byte, 1<<20), 1<<26)
				for sc.Scan() {
					for _, l := range r.Exec(sc.Text()) {
						w.WriteString(l)
						w.WriteByte('\n')
					}
				}
			}(i, fn)
		}
		wg.Wait()
	case "gcarm":
		// gcarm <soak|retain|escape> [seconds] [seed]
		mode := os.Args[2]
		secs := 2.0
		if len(os.Args) > 3 {
			secs, _ = strconv.ParseFloat(os.Args[3], 64)
		}
		var seed uint64 = 1
		if len(os.Args) > 4 {
			seed, _ = strconv.ParseUint(os.Args[4], 10, 64)
		}
		switch mode {
		case "soak":
			gcSoak(secs, seed)
		case "retain":
			gcRetain()
		case "barrier":
			gcBarrier(secs)
		case "escape":
			gcEscape()
		case "alias":
			gcAlias()
		default:
			os.Exit(2)
		}
	case "generic":
		// generic <seed> <rounds> <steps>
		seed, _ := strconv.ParseUint(os.Args[2], 10, 64)
		rounds, _ := strconv.Atoi(os.Args[3])
		steps, _ := strconv.Atoi(os.Args[4])
		total := 0
		for i := 0; i < rounds; i++ {
			n, err := genericArmAll(seed*1000+uint64(i), steps)
			total += n
			if err != nil {
				fmt.Println("GENERIC-ARM FAILURE:", err)
				os.Exit(3)
			}
		}
		fmt.Printf("generic ok steps=%d arities=1..12\n", total)
	case "builderarm":
		// random builder / registration / lock / use sequences on one generic filter against the documented semantics
		seed, _ := strconv.ParseUint(os.Args[2], 10, 64)
		rounds, _ := strconv.Atoi(os.Args[3])
		steps, err := builderArm(seed, rounds)
		if err != nil {
			fmt.Println("BUILDER-ARM FAILURE:", err)
			os.Exit(3)
		}
		fmt.Printf("builder arm ok steps=%d rounds=%d\n", steps, rounds)
	case "genericfixed":
		// the fixed scenarios of the generic arm only (Map, Exchange, Resource vs. the core)
		if err := genericFixed(); err != nil {
			fmt.Println("GENERIC-ARM FAILURE:", err)
			os.Exit(3)
		}
		fmt.Println("generic fixed scenarios ok")
	case "eventsarm":
		// listeners that act on the world from inside their callback; oracle: replay of the events
		seed, _ := strconv.ParseUint(os.Args[2], 10, 64)
		rounds, _ := strconv.Atoi(os.Args[3])
		steps, err := eventsArm(seed, rounds)
		if err != nil {
			fmt.Println("EVENTS-ARM FAILURE:", err)
			os.Exit(3)
		}
		fmt.Printf("events arm ok steps=%d rounds=%d\n", steps, rounds)
	case "typeshapes":
		// every kind of Go type maps to one id through the generic and the reflect.Type entry points
		if err := genericShapes(); err != nil {
			fmt.Println("TYPE-SHAPE FAILURE:", err)
			os.Exit(3)
		}
		fmt.Println("type shapes ok")
	case "puregen":
		seed, _ := strconv.ParseUint(os.Args[2], 10, 64)
		n, _ := strconv.Atoi(os.Args[3])
		f, err := os.Create(os.Args[4])
		if err != nil {
			panic(err)
		}
		w := bufio.NewWriter(f)
		pureGen(seed, n, w)
		w.Flush()
		f.Close()
	case "purerun":
		f, err := os.Open(os.Args[2])
		if err != nil {
			panic(err)
		}
		pureRun(f, os.Stdout)
	case "gen":
		// gen <profile> <seed> <seqs> <n> <opsfile> <outfile> [statsfile]
		if len(os.Args) < 8 {
			fmt.Fprintln(os.Stderr, "usage: harness gen <profile> <seed> <seqs> <n> <opsfile> <outfile> [statsfile]")
			os.Exit(2)
		}
		p, ok := profiles[os.Args[2]]
		if !ok {
			fmt.Fprintln(os.Stderr, "unknown profile")
			os.Exit(2)
		}
		seed, _ := strconv.ParseUint(os.Args[3], 10, 64)
		seqs, _ := strconv.Atoi(os.Args[4])
		n, _ := strconv.Atoi(os.Args[5])
		fo, err := os.Create(os.Args[6])
		if err != nil {
			panic(err)
		}
		fr, err := os.Create(os.Args[7])
		if err != nil {
			panic(err)
		}
		wo, wr := bufio.NewWriter(fo), bufio.NewWriter(fr)
		opCount := map[string]int{}
		panicCount := map[string]int{}
		for i := 0; i < seqs; i++ {
			sd := seed*1000003 + uint64(i)
			g := Generate(sd, p, n)
			fmt.Fprintf(wo, "# seq %d seed %d profile %s\n", i, sd, p.name)
			for j, op := range g.ops {
				wo.WriteString(op)
				wo.WriteByte('\n')
				for _, l := range g.outs[j] {
					wr.WriteString(l)
					wr.WriteByte('\n')
				}
			}
			for k, v := range g.r.opCount {
				opCount[k] += v
			}
			for k, v := range g.r.panicCount {
				panicCount[k] += v
			}
		}
		wo.Flush()
		wr.Flush()
		fo.Close()
		fr.Close()
		if len(os.Args) > 8 {
			data, _ := json.Marshal(map[string]interface{}{"ops": opCount, "panics": panicCount})
			os.WriteFile(os.Args[8], data, 0o644)
		}
	default:
		fmt.Fprintln(os.Stderr, "unknown command")
		os.Exit(2)
	}
}
