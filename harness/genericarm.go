package main

// Generic-API arm (C18): twin worlds — generic calls on one, the ID-based calls documented as
// their equivalents on the other; handles, query selections, Get positions and full world
// snapshots are compared after every step. Arity-specific code is generated
// (gen/mkgeneric.py → genericarm_gen.go). Plus fixed scenarios for Map, Exchange, Resource and
// relation-target queries (one filter, several targets).

import (
	"fmt"
	"reflect"

	"github.com/mlange-42/arche/ecs"
	"github.com/mlange-42/arche/generic"
)

type gRes struct{ V int }

func genericFixed() error {
	// Map[T], Exchange, Resource vs. core
	gg, gc := newGWorld2()
	mp := generic.NewMap[GA0](&gg.w)
	if mp.ID() != gc.ids[0] {
		return fmt.Errorf("Map.ID differs from ComponentID")
	}
	ex := generic.NewExchange(&gg.w).Adds(generic.T[GA0](), generic.T[GX]()).Removes(generic.T[GY]())
	eg := ex.NewEntity()
	ec := gc.w.NewEntity(gc.ids[0], gc.x)
	if eg != ec || gdump(gg) != gdump(gc) {
		return fmt.Errorf("Exchange.NewEntity differs from NewEntity(ids of Adds)")
	}
	e2g, e2c := gg.w.NewEntity(gg.y), gc.w.NewEntity(gc.y)
	ex.Exchange(e2g)
	gc.w.Exchange(e2c, []ecs.ID{gc.ids[0], gc.x}, []ecs.ID{gc.y})
	if gdump(gg) != gdump(gc) {
		return fmt.Errorf("Exchange.Exchange differs from World.Exchange")
	}
	// Map.Set/Get/Has
	e3g, e3c := gg.w.NewEntity(gg.ids[0]), gc.w.NewEntity(gc.ids[0])
	mp.Set(e3g, &GA0{V: 5, W: 6})
	gc.w.Set(e3c, gc.ids[0], &GA0{V: 5, W: 6})
	if !mp.Has(e3g) || mp.Get(e3g).V != 5 || gdump(gg) != gdump(gc) {
		return fmt.Errorf("Map.Set/Get/Has differ from World.Set/Get/Has")
	}
	if mp.Get(e2g) != nil && !gc.w.Has(e2c, gc.ids[0]) {
		return fmt.Errorf("Map.Get of an absent component is not nil")
	}
	// Resource
	rg := generic.NewResource[gRes](&gg.w)
	if rg.Has() || rg.Get() != nil {
		return fmt.Errorf("Resource.Get of an absent resource is not nil")
	}
	v := &gRes{V: 3}
	rg.Add(v)
	if !rg.Has() || rg.Get() != v || gg.w.Resources().Get(rg.ID()) != interface{}(v) {
		return fmt.Errorf("Resource.Add/Get do not return the exact pointer")
	}
	if ecs.GetResource[gRes](&gg.w) != v {
		return fmt.Errorf("GetResource does not return the exact pointer")
	}
	rg.Remove()
	if rg.Has() || rg.Get() != nil || ecs.GetResource[gRes](&gg.w) != nil {
		return fmt.Errorf("Resource still present after Remove")
	}
	// one value per type per world, whatever path replaced it: by ID, by a second mapper, by the
	// package functions, across Reset
	v1 := &gRes{V: 1}
	rg.Add(v1)
	gg.w.Resources().Remove(rg.ID())
	v2 := &gRes{V: 2}
	gg.w.Resources().Add(rg.ID(), v2)
	rg2 := generic.NewResource[gRes](&gg.w)
	if rg.Get() != v2 || rg2.Get() != v2 || ecs.GetResource[gRes](&gg.w) != v2 {
		return fmt.Errorf("Resource.Get returns a stale pointer after the resource was replaced through its ID")
	}
	rg2.Remove()
	v3 := &gRes{V: 3}
	rg2.Add(v3)
	if rg.Get() != v3 || !rg.Has() {
		return fmt.Errorf("Resource.Get returns a stale pointer after the resource was replaced through another mapper")
	}
	gg.w.Reset()
	if rg.Has() || rg.Get() != nil || rg2.Get() != nil {
		return fmt.Errorf("Resource still present after World.Reset")
	}
	// a type that is a component type and a resource type at once (different ids in the two registries):
	// lookups of one kind between lookups of the other
	{
		w2 := ecs.NewWorld()
		ecs.ComponentID[GA0](&w2)
		ecs.ComponentID[GA1](&w2)
		cid := ecs.ComponentID[gRes](&w2)
		vr := &gRes{V: 9}
		ecs.AddResource(&w2, vr)
		if ecs.ComponentID[gRes](&w2) != cid {
			return fmt.Errorf("component id of a type changed after it was added as a resource")
		}
		if got := ecs.GetResource[gRes](&w2); got != vr {
			return fmt.Errorf("GetResource right after a component lookup of the same type returns %v, the resource added is %v", got, vr)
		}
		rid := ecs.ResourceID[gRes](&w2)
		_ = ecs.ComponentID[gRes](&w2)
		if rid2 := ecs.ResourceID[gRes](&w2); rid2 != rid {
			return fmt.Errorf("ResourceID of a type changes with an interleaved ComponentID lookup of the same type: %v, %v", rid, rid2)
		}
		_ = ecs.ComponentID[gRes](&w2)
		gr := generic.NewResource[gRes](&w2)
		if !w2.Resources().Has(rid) || !gr.Has() {
			return fmt.Errorf("resource not found after a component lookup of the same type")
		}
		_ = ecs.ComponentID[GA0](&w2)
		if byType := ecs.ResourceTypeID(&w2, reflect.TypeOf(gRes{})); byType != rid {
			return fmt.Errorf("ResourceID[T] = %v but ResourceTypeID(reflect type of T) = %v for a type that is also a component type", rid, byType)
		}
		if n := len(ecs.ResourceIDs(&w2)); n != 1 {
			return fmt.Errorf("%d resource types registered after adding one resource (its type is also a component type)", n)
		}
		if got := ecs.GetResource[gRes](&w2); got != vr {
			return fmt.Errorf("GetResource returns %v after other lookups, the resource added is %v", got, vr)
		}
		e := w2.NewEntity(cid)
		_ = ecs.ResourceID[gRes](&w2)
		if !w2.Has(e, ecs.ComponentID[gRes](&w2)) {
			return fmt.Errorf("component not found after a resource lookup of the same type")
		}
	}
	v4 := &gRes{V: 4}
	ecs.AddResource(&gg.w, v4)
	if rg.Get() != v4 || rg2.Get() != v4 {
		return fmt.Errorf("Resource.Get returns a stale pointer after Reset and AddResource")
	}
	return nil
}

// relation filters: one generic filter, queries for several targets built before iterating
func genericRelation() error {
	gg, gc := newGWorld2()
	t1g, t2g := gg.w.NewEntity(), gg.w.NewEntity()
	t1c, t2c := gc.w.NewEntity(), gc.w.NewEntity()
	mg := generic.NewMap2[GRel, GA0](&gg.w, generic.T[GRel]())
	for i := 0; i < 5; i++ {
		tg, tc := t1g, t1c
		if i >= 2 {
			tg, tc = t2g, t2c
		}
		a := mg.New(tg)
		b := ecs.NewBuilder(&gc.w, gc.rel, gc.ids[0]).WithRelation(gc.rel).New(tc)
		if a != b {
			return fmt.Errorf("Map2.New(target) handle differs from Builder.WithRelation.New(target)")
		}
	}
	if gdump(gg) != gdump(gc) {
		return fmt.Errorf("worlds differ after relation creation")
	}
	f := generic.NewFilter1[GRel]().WithRelation(generic.T[GRel]())
	q1 := f.Query(&gg.w, t1g)
	q2 := f.Query(&gg.w, t2g)
	n1, n2 := 0, 0
	for q1.Next() {
		if q1.Relation() != t1g {
			q1.Close()
			q2.Close()
			return fmt.Errorf("query built for target 1 visits an entity of target %v", q1.Relation())
		}
		n1++
	}
	for q2.Next() {
		n2++
	}
	if n1 != 2 || n2 != 3 {
		return fmt.Errorf("relation queries from one filter select %d and %d entities, expected 2 and 3", n1, n2)
	}
	// target given at filter construction, later overridden per query
	f2 := generic.NewFilter1[GRel]().WithRelation(generic.T[GRel](), t1g)
	q := f2.Query(&gg.w)
	c := q.Count()
	q.Close()
	if c != 2 {
		return fmt.Errorf("filter with fixed target selects %d, expected 2", c)
	}
	// a filter with a fixed target keeps selecting that target across Register / Unregister
	f3 := generic.NewFilter1[GRel]().WithRelation(generic.T[GRel](), t1g)
	count := func() int {
		q := f3.Query(&gg.w)
		n := q.Count()
		q.Close()
		return n
	}
	before := count()
	f3.Register(&gg.w)
	during := count()
	f3.Unregister(&gg.w)
	after := count()
	if before != 2 || during != 2 || after != 2 {
		return fmt.Errorf("filter with fixed relation target selects %d before, %d while and %d after being registered; the core RelationFilter selects 2", before, during, after)
	}
	// a fixed *zero* target selects the entities that have the relation but no target, like the
	// core RelationFilter with the zero entity — used directly, as a filter value, and registered
	for i := 0; i < 2; i++ {
		a := gg.w.NewEntity(gg.rel, gg.ids[0])
		b := gc.w.NewEntity(gc.rel, gc.ids[0])
		if a != b {
			return fmt.Errorf("handles differ for target-less relation entities")
		}
	}
	coreZero := ecs.NewRelationFilter(ecs.All(gc.rel), ecs.Entity{})
	qc := gc.w.Query(&coreZero)
	wantZero := qc.Count()
	qc.Close()
	fz := generic.NewFilter1[GRel]().WithRelation(generic.T[GRel](), ecs.Entity{})
	countZ := func() int {
		q := fz.Query(&gg.w)
		n := 0
		for q.Next() {
			if !q.Relation().IsZero() {
				n += 1000
			}
			n++
		}
		return n
	}
	zb := countZ()
	qv := gg.w.Query(fz.Filter(&gg.w))
	zv := qv.Count()
	qv.Close()
	fz.Register(&gg.w)
	zd := countZ()
	extra := gg.w.NewEntity(gg.rel, gg.ids[0])
	gg.w.Relations().Set(extra, gg.rel, t1g)
	zd2 := countZ()
	gg.w.RemoveEntity(extra)
	fz.Unregister(&gg.w)
	if zb != wantZero || zv != wantZero || zd != wantZero || zd2 != wantZero {
		return fmt.Errorf("generic filter fixed to the zero target selects %d / %d (as value) / %d, %d (registered); the core RelationFilter with the zero entity selects %d", zb, zv, zd, zd2, wantZero)
	}
	if e := gc.w.NewEntity(gc.rel, gc.ids[0]); e != extra {
		return fmt.Errorf("handles differ")
	} else {
		gc.w.RemoveEntity(e)
	}
	// a filter with a relation and the target given per query, reconfigured between two queries for the
	// SAME target: each query evaluates the configuration current when it is built
	{
		fr := generic.NewFilter1[GRel]().WithRelation(generic.T[GRel]())
		cnt := func(tg ecs.Entity) int {
			q := fr.Query(&gg.w, tg)
			n := q.Count()
			q.Close()
			return n
		}
		core := func(fl ecs.Filter, tg ecs.Entity) int {
			rf := ecs.NewRelationFilter(fl, tg)
			q := gc.w.Query(&rf)
			n := q.Count()
			q.Close()
			return n
		}
		if a, b := cnt(t1g), core(ecs.All(gc.rel), t1c); a != b {
			return fmt.Errorf("relation filter, target per query: generic selects %d, core %d", a, b)
		}
		fr.With(generic.T[GX]())
		if a, b := cnt(t1g), core(ecs.All(gc.rel, gc.x), t1c); a != b {
			return fmt.Errorf("relation filter reconfigured with With(X) between two queries for the same target: generic selects %d, core %d", a, b)
		}
		fr.Without(generic.T[GA0]())
		wo := ecs.All(gc.rel, gc.x).Without(gc.ids[0])
		if a, b := cnt(t1g), core(&wo, t1c); a != b {
			return fmt.Errorf("relation filter reconfigured with Without(A0) between two queries for the same target: generic selects %d, core %d", a, b)
		}
		fr2 := generic.NewFilter1[GRel]().WithRelation(generic.T[GRel]())
		{
			q0 := gg.w.Query(fr2.Filter(&gg.w, t2g))
			_ = q0.Count()
			q0.Close()
		}
		fr2.Exclusive()
		ex := ecs.All(gc.rel).Exclusive()
		q := gg.w.Query(fr2.Filter(&gg.w, t2g))
		a := q.Count()
		q.Close()
		if b := core(&ex, t2c); a != b {
			return fmt.Errorf("relation filter made Exclusive between two Filter() calls for the same target: generic selects %d, core %d", a, b)
		}
	}
	// Exchange: the relation is part of the configuration whatever the order of the builder calls
	for order := 0; order < 3; order++ {
		var ex *generic.Exchange
		switch order {
		case 0:
			ex = generic.NewExchange(&gg.w).Adds(generic.T[GRel](), generic.T[GA0]()).WithRelation(generic.T[GRel]())
		case 1:
			ex = generic.NewExchange(&gg.w).WithRelation(generic.T[GRel]()).Adds(generic.T[GRel](), generic.T[GA0]())
		default:
			ex = generic.NewExchange(&gg.w).Adds(generic.T[GRel]()).WithRelation(generic.T[GRel]()).Adds(generic.T[GRel](), generic.T[GA0]())
		}
		a := ex.NewEntity(t1g)
		b := ecs.NewBuilder(&gc.w, gc.rel, gc.ids[0]).WithRelation(gc.rel).New(t1c)
		if a != b || gdump(gg) != gdump(gc) {
			return fmt.Errorf("Exchange (builder call order %d).NewEntity(target) differs from Builder.WithRelation.New(target)", order)
		}
		plain := gg.w.NewEntity(gg.x)
		plainC := gc.w.NewEntity(gc.x)
		ex.Add(plain, t2g)
		gc.w.Relations().Exchange(plainC, []ecs.ID{gc.rel, gc.ids[0]}, nil, gc.rel, t2c)
		if gdump(gg) != gdump(gc) {
			return fmt.Errorf("Exchange (builder call order %d).Add(entity, target) differs from Relations.Exchange", order)
		}
	}
	// batch forms of Exchange without a target argument: the documented equivalent is Batch.Exchange — entities that
	// keep the relation component keep their targets, and removing the relation component is legal
	{
		exKeep := generic.NewExchange(&gg.w).Adds(generic.T[GY]()).WithRelation(generic.T[GRel]())
		fg := ecs.All(gg.rel, gg.ids[0])
		fc := ecs.All(gc.rel, gc.ids[0])
		ng := exKeep.ExchangeBatch(fg)
		nc := gc.w.Batch().Exchange(fc, []ecs.ID{gc.y}, nil)
		if ng != nc || gdump(gg) != gdump(gc) {
			return fmt.Errorf("Exchange.WithRelation(Rel).Adds(Y).ExchangeBatch(filter) without a target differs from Batch.Exchange (counts %d / %d): the entities keep the relation component and must keep their targets", ng, nc)
		}
		exBack := generic.NewExchange(&gg.w).Removes(generic.T[GY]()).WithRelation(generic.T[GRel]())
		fgy := ecs.All(gg.rel, gg.y)
		fcy := ecs.All(gc.rel, gc.y)
		ng = exBack.ExchangeBatch(fgy)
		nc = gc.w.Batch().Exchange(fcy, nil, []ecs.ID{gc.y})
		if ng != nc || gdump(gg) != gdump(gc) {
			return fmt.Errorf("Exchange.WithRelation(Rel).Removes(Y).ExchangeBatch(filter) without a target differs from Batch.Exchange (counts %d / %d)", ng, nc)
		}
	}
	// SetRelation through Map[T]
	mr := generic.NewMap[GRel](&gg.w)
	es := gg.w.VerifAliveEntities()
	for _, e := range es {
		if gg.w.Has(e, gg.rel) {
			mr.SetRelation(e, t2g)
			gc.w.Relations().Set(e, gc.rel, t2c)
			if mr.GetRelation(e) != t2g {
				return fmt.Errorf("Map.GetRelation differs after SetRelation")
			}
		}
	}
	if gdump(gg) != gdump(gc) {
		return fmt.Errorf("worlds differ after Map.SetRelation")
	}
	return nil
}

// genericValue: a filter or query obtained from a generic filter is a value — reconfiguring the
// generic filter afterwards (and building further filters / queries from it) does not change
// what the earlier one selects; each selects what the equivalent core filter selects.
func genericValue() error {
	gg, _ := newGWorld2()
	w := &gg.w
	a0, x, y := gg.ids[0], gg.x, gg.y
	w.NewEntity(a0)
	w.NewEntity(a0, x)
	w.NewEntity(a0, y)
	w.NewEntity(a0, x, y)
	w.NewEntity(a0, gg.ids[1])
	sel := func(f ecs.Filter) string {
		q := w.Query(f)
		s := ""
		for q.Next() {
			s += fmt.Sprint(q.Entity()) + " "
		}
		return s
	}
	drain1 := func(q *generic.Query1[GA0]) string {
		s := ""
		for q.Next() {
			s += fmt.Sprint(q.Entity()) + " "
		}
		return s
	}
	type reconf struct {
		name  string
		first func() *generic.Filter1[GA0]
		core1 func() ecs.Filter
		then  func(f *generic.Filter1[GA0])
		core2 func() ecs.Filter
	}
	woX := func() ecs.Filter { f := ecs.All(a0).Without(x); return &f }
	woXY := func() ecs.Filter { f := ecs.All(a0).Without(x, y); return &f }
	onlyY := func() ecs.Filter { return ecs.All(a0, y) }
	withY := func() ecs.Filter { f := ecs.All(a0, y).Without(x); return &f }
	cases := []reconf{
		{"Without(X) then Without(Y)", func() *generic.Filter1[GA0] { return generic.NewFilter1[GA0]().Without(generic.T[GX]()) }, woX,
			func(f *generic.Filter1[GA0]) { f.Without(generic.T[GY]()) }, woXY},
		{"Without(X) then With(Y)", func() *generic.Filter1[GA0] { return generic.NewFilter1[GA0]().Without(generic.T[GX]()) }, woX,
			func(f *generic.Filter1[GA0]) { f.With(generic.T[GY]()) }, withY},
		{"With(Y) then Without(X)", func() *generic.Filter1[GA0] { return generic.NewFilter1[GA0]().With(generic.T[GY]()) }, onlyY,
			func(f *generic.Filter1[GA0]) { f.Without(generic.T[GX]()) }, withY},
	}
	for _, c := range cases {
		// (1) an open query survives reconfiguration and a second query built from the same filter
		f := c.first()
		outer := f.Query(w)
		c.then(f)
		inner := f.Query(w)
		gotInner := drain1(&inner)
		gotOuter := drain1(&outer)
		if want := sel(c.core1()); gotOuter != want {
			return fmt.Errorf("generic filter %s: the query built before the reconfiguration visits [%s], the core filter for its configuration selects [%s]", c.name, gotOuter, want)
		}
		if want := sel(c.core2()); gotInner != want {
			return fmt.Errorf("generic filter %s: the query built after the reconfiguration visits [%s], the core filter selects [%s]", c.name, gotInner, want)
		}
		// (2) an ecs.Filter value obtained before the reconfiguration, used after it
		f = c.first()
		fl := f.Filter(w)
		c.then(f)
		fl2 := f.Filter(w)
		if got, want := sel(fl), sel(c.core1()); got != want {
			return fmt.Errorf("generic filter %s: Filter() value obtained before the reconfiguration selects [%s] afterwards, expected [%s]", c.name, got, want)
		}
		if got, want := sel(fl2), sel(c.core2()); got != want {
			return fmt.Errorf("generic filter %s: Filter() after the reconfiguration selects [%s], expected [%s]", c.name, got, want)
		}
	}
	return nil
}

type GLateX struct{ V int64 }
type GLateY struct{ V int64 }
type GLateZ struct{ V int64 }

// genericLate: a generic filter that names component types the world has not seen yet, used
// (or registered) before those types are registered by anyone else, selects what the core
// filter over the IDs of the same types selects — also later, when entities carry them.
func genericLate() error {
	for variant := 0; variant < 3; variant++ {
		w := ecs.NewWorld()
		a0 := ecs.ComponentID[GA0](&w)
		for i := 0; i < 3; i++ {
			w.NewEntity(a0)
		}
		f := generic.NewFilter1[GA0]().Without(generic.T[GLateX]()).Optional(generic.T[GLateZ]())
		fw := generic.NewFilter1[GA0]().With(generic.T[GLateY]())
		count := func(fl *generic.Filter1[GA0]) int {
			q := fl.Query(&w)
			n := q.Count()
			q.Close()
			return n
		}
		countCore := func(fl ecs.Filter) int {
			q := w.Query(fl)
			n := q.Count()
			q.Close()
			return n
		}
		switch variant {
		case 0: // used once before the types exist elsewhere
			if n := count(f); n != 3 {
				return fmt.Errorf("late types: filter Without(unknown type) selects %d of 3 entities", n)
			}
			if n := count(fw); n != 0 {
				return fmt.Errorf("late types: filter With(unknown type) selects %d entities, expected none", n)
			}
		case 1: // registered before the types exist elsewhere
			f.Register(&w)
			fw.Register(&w)
		default: // only obtained as a filter value
			_ = f.Filter(&w)
			_ = fw.Filter(&w)
		}
		x, y := ecs.ComponentID[GLateX](&w), ecs.ComponentID[GLateY](&w)
		w.NewEntity(a0, x)
		w.NewEntity(a0, y)
		w.NewEntity(a0, x, y)
		w.NewEntity(a0, ecs.ComponentID[GLateZ](&w))
		coreF := ecs.All(a0).Without(x)
		if got, want := count(f), countCore(&coreF); got != want {
			return fmt.Errorf("late types (variant %d): generic filter Without(X), built before X was registered, selects %d entities; All(a).Without(x) selects %d", variant, got, want)
		}
		if got, want := count(fw), countCore(ecs.All(a0, y)); got != want {
			return fmt.Errorf("late types (variant %d): generic filter With(Y), built before Y was registered, selects %d entities; All(a, y) selects %d", variant, got, want)
		}
		fresh := generic.NewFilter1[GA0]().Without(generic.T[GLateX]()).Optional(generic.T[GLateZ]())
		if got, want := count(f), count(fresh); got != want {
			return fmt.Errorf("late types (variant %d): a filter used before differs from a freshly built filter with the same configuration: %d vs %d", variant, got, want)
		}
		// a mapper for a type first seen through the mapper
		m := generic.NewMap1[GLateZ](&w)
		e := m.New()
		if !w.Has(e, ecs.ComponentID[GLateZ](&w)) {
			return fmt.Errorf("late types: Map1.New entity lacks the mapper's component")
		}
	}
	return nil
}

type gShapeIface interface{ M() int }
type gShapeNamed int32
type gShapeGen[T any] struct{ V T }
type gShapeEmpty struct{}
type gShapeFunc func(int) int

// shapeCheck: the generic entry points and the reflect.Type entry points agree for one type
func shapeCheck[T any](w *ecs.World, seen map[ecs.ID]reflect.Type, seenRes map[ecs.ResID]reflect.Type) (err error) {
	tp := reflect.TypeOf((*T)(nil)).Elem()
	defer func() {
		if x := recover(); x != nil {
			err = fmt.Errorf("type %v: panic: %v", tp, x)
		}
	}()
	if generic.T[T]() != tp {
		return fmt.Errorf("generic.T[%v]() is %v", tp, generic.T[T]())
	}
	before := len(ecs.ComponentIDs(w))
	id := ecs.ComponentID[T](w)
	if len(ecs.ComponentIDs(w)) != before+1 {
		return fmt.Errorf("type %v: ComponentID did not register exactly one type (%d -> %d ids)", tp, before, len(ecs.ComponentIDs(w)))
	}
	if id2 := ecs.TypeID(w, tp); id2 != id {
		return fmt.Errorf("type %v: ComponentID[T] = %v but TypeID(reflect type) = %v", tp, id, id2)
	}
	if id3 := ecs.ComponentID[T](w); id3 != id || len(ecs.ComponentIDs(w)) != before+1 {
		return fmt.Errorf("type %v: second ComponentID[T] gives %v, first gave %v", tp, id3, id)
	}
	if other, dup := seen[id]; dup {
		return fmt.Errorf("types %v and %v share component id %v", other, tp, id)
	}
	seen[id] = tp
	if info, ok := ecs.ComponentInfo(w, id); !ok || info.Type != tp || info.ID != id {
		return fmt.Errorf("type %v: ComponentInfo reports %v (ok=%v)", tp, info.Type, ok)
	}
	if mp := generic.NewMap[T](w); mp.ID() != id {
		return fmt.Errorf("type %v: Map[T].ID differs from ComponentID[T]", tp)
	}
	rbefore := len(ecs.ResourceIDs(w))
	rid := ecs.ResourceID[T](w)
	if rid2 := ecs.ResourceTypeID(w, tp); rid2 != rid || len(ecs.ResourceIDs(w)) != rbefore+1 {
		return fmt.Errorf("type %v: ResourceID[T] = %v but ResourceTypeID(reflect type) = %v (%d -> %d ids)", tp, rid, rid2, rbefore, len(ecs.ResourceIDs(w)))
	}
	if other, dup := seenRes[rid]; dup {
		return fmt.Errorf("types %v and %v share resource id %v", other, tp, rid)
	}
	seenRes[rid] = tp
	if rt, ok := ecs.ResourceType(w, rid); !ok || rt != tp {
		return fmt.Errorf("type %v: ResourceType reports %v (ok=%v)", tp, rt, ok)
	}
	if rs := generic.NewResource[T](w); rs.ID() != rid {
		return fmt.Errorf("type %v: Resource[T].ID differs from ResourceID[T]", tp)
	}
	return nil
}

// genericShapes (C16): every kind of Go type maps to one id through every entry point
type gShapeOffset1 struct{ A int8 }
type gShapeOffset2 struct{ A int16 }

func genericShapes() error {
	w := ecs.NewWorld()
	// component ids and resource ids of the same type differ from here on
	ecs.ResourceID[gShapeOffset1](&w)
	ecs.ResourceID[gShapeOffset2](&w)
	seen := map[ecs.ID]reflect.Type{}
	seenRes := map[ecs.ResID]reflect.Type{}
	checks := []func() error{
		func() error { return shapeCheck[GA0](&w, seen, seenRes) },
		func() error { return shapeCheck[gShapeEmpty](&w, seen, seenRes) },
		func() error { return shapeCheck[struct{}](&w, seen, seenRes) },
		func() error { return shapeCheck[gShapeNamed](&w, seen, seenRes) },
		func() error { return shapeCheck[int32](&w, seen, seenRes) },
		func() error { return shapeCheck[string](&w, seen, seenRes) },
		func() error { return shapeCheck[[3]uint16](&w, seen, seenRes) },
		func() error { return shapeCheck[[]byte](&w, seen, seenRes) },
		func() error { return shapeCheck[map[string]int](&w, seen, seenRes) },
		func() error { return shapeCheck[*GA0](&w, seen, seenRes) },
		func() error { return shapeCheck[**GA0](&w, seen, seenRes) },
		func() error { return shapeCheck[gShapeIface](&w, seen, seenRes) },
		func() error { return shapeCheck[error](&w, seen, seenRes) },
		func() error { return shapeCheck[any](&w, seen, seenRes) },
		func() error { return shapeCheck[gShapeFunc](&w, seen, seenRes) },
		func() error { return shapeCheck[func()](&w, seen, seenRes) },
		func() error { return shapeCheck[chan int](&w, seen, seenRes) },
		func() error { return shapeCheck[gShapeGen[int]](&w, seen, seenRes) },
		func() error { return shapeCheck[gShapeGen[string]](&w, seen, seenRes) },
		func() error { return shapeCheck[gShapeGen[gShapeGen[int]]](&w, seen, seenRes) },
		func() error { return shapeCheck[struct{ A int }](&w, seen, seenRes) },
		func() error { return shapeCheck[struct{ B int }](&w, seen, seenRes) },
		func() error { return shapeCheck[GRel](&w, seen, seenRes) },
		func() error { return shapeCheck[ecs.Relation](&w, seen, seenRes) },
		func() error { return shapeCheck[ecs.Entity](&w, seen, seenRes) },
		func() error { return shapeCheck[unsafePtrHolder](&w, seen, seenRes) },
	}
	for _, c := range checks {
		if err := c(); err != nil {
			return err
		}
	}
	// an entity can carry all of them
	ids := ecs.ComponentIDs(&w)
	e := w.NewEntity(ids...)
	for _, id := range ids {
		if !w.Has(e, id) {
			return fmt.Errorf("entity created with all shapes lacks %v", id)
		}
	}
	return nil
}

type unsafePtrHolder struct{ P uintptr }

// genericArmAll runs every arity; returns the number of steps executed.

// genericNoRelation: a map whose component list contains a relation type but that was built WITHOUT the relation
// option must refuse a target exactly as the ID-based builder without WithRelation does — whatever ID the relation
// type has (in particular ID 0, the zero value of ecs.ID).
func genericNoRelation() error {
	outcome := func(f func() int) (res string) {
		defer func() {
			if x := recover(); x != nil {
				res = "panic"
			}
		}()
		return fmt.Sprintf("ok %d", f())
	}
	for order := 0; order < 2; order++ {
		mk := func() (*ecs.World, ecs.ID, ecs.ID) {
			w := ecs.NewWorld(ecs.NewConfig().WithCapacityIncrement(4).WithRelationCapacityIncrement(2))
			var rel, a0 ecs.ID
			if order == 0 {
				rel = ecs.ComponentID[GRel](&w) // the relation type is component 0
				a0 = ecs.ComponentID[GA0](&w)
			} else {
				a0 = ecs.ComponentID[GA0](&w)
				rel = ecs.ComponentID[GRel](&w)
			}
			return &w, rel, a0
		}
		count := func(w *ecs.World) int { return w.Stats().Entities.Used }
		for variant := 0; variant < 3; variant++ {
			wg, _, _ := mk()
			wc, relC, a0C := mk()
			tg, tc := wg.NewEntity(), wc.NewEntity()
			m := generic.NewMap2[GRel, GA0](wg) // no relation option
			b := ecs.NewBuilder(wc, relC, a0C)   // no WithRelation
			var g, c string
			switch variant {
			case 0:
				g = outcome(func() int { m.New(tg); return count(wg) })
				c = outcome(func() int { b.New(tc); return count(wc) })
			case 1:
				g = outcome(func() int { m.NewBatch(3, tg); return count(wg) })
				c = outcome(func() int { b.NewBatch(3, tc); return count(wc) })
			default:
				g = outcome(func() int { q := m.NewBatchQ(3, tg); q.Close(); return count(wg) })
				c = outcome(func() int { q := b.NewBatchQ(3, tc); q.Close(); return count(wc) })
			}
			if g != c {
				return fmt.Errorf("map without relation option, relation type registered %s, variant %d (New/NewBatch/NewBatchQ with a target): generic API %q, ID-based builder without WithRelation %q",
					[]string{"first (ID 0)", "second"}[order], variant, g, c)
			}
			if count(wg) != count(wc) {
				return fmt.Errorf("map without relation option (order %d, variant %d): %d entities in the generic world, %d in the ID-based one", order, variant, count(wg), count(wc))
			}
			if wg.IsLocked() != wc.IsLocked() {
				return fmt.Errorf("map without relation option (order %d, variant %d): lock state differs after the refused call", order, variant)
			}
		}
	}
	return nil
}

func genericArmAll(seed uint64, steps int) (int, error) {
	if err := genericNoRelation(); err != nil {
		return 0, err
	}
	if err := genericFixed(); err != nil {
		return 0, err
	}
	if err := genericLate(); err != nil {
		return 0, err
	}
	if err := genericRelation(); err != nil {
		return 0, err
	}
	if err := genericValue(); err != nil {
		return 0, err
	}
	total := 0
	for i, arm := range genericArms {
		r := &rng{s: seed*977 + uint64(i)}
		if err := safeArm(arm, r, steps); err != nil {
			return total, fmt.Errorf("seed %d: %v", seed, err)
		}
		total += steps
	}
	return total, nil
}

func safeArm(arm func(*rng, int) error, r *rng, steps int) (err error) {
	defer func() {
		if x := recover(); x != nil {
			err = fmt.Errorf("panic in generic arm: %v", x)
		}
	}()
	return arm(r, steps)
}
