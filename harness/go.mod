module verifharness

go 1.21

require github.com/mlange-42/arche v0.0.0

replace github.com/mlange-42/arche => /repo
